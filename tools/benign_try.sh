#!/bin/bash
# usage: tools/benign_try.sh <patch file> [property ids...]
# Applies a change that is believed to preserve every property to /repo's
# working tree, runs the quick checks (all 18 by default, 25 s budget each),
# prints every violation line, and restores the tree. Never commits.
set -u
patch=$1; shift
ids=${@:-C01 C02 C03 C04 C05 C06 C07 C08 C09 C10 C11 C12 C13 C14 C15 C16 C17 C18}
cd /verif
export VERIF_OUT_DIR=/tmp/benign_out GOFLAGS=-mod=mod GOPROXY=off GOSUMDB=off GOTOOLCHAIN=local
exec 9>/tmp/verif_repo.lock
flock 9
unset VERIF_BUILD_LOCK
if ! git -C /repo diff --quiet; then echo "/repo has uncommitted changes"; exit 2; fi
git -C /repo apply "$patch" || exit 2
trap 'git -C /repo checkout -- .' EXIT
for id in $ids; do
  out=$(timeout 900 bin/verif check $id --tier quick --budget 25s 2>&1)
  rc=$?
  echo "== $(basename $patch) vs $id: exit $rc; $(echo "$out" | grep -E 'runs,' | sed 's/.*: \([0-9]* runs\).*/\1/')"
  echo "$out" | grep -E "^violation|^VIOLATION|infrastructure failure" | cut -c1-420 | head -8
done
