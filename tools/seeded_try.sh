#!/bin/bash
# usage: tools/seeded_try.sh <seeded dir name> <property id>... 
# Applies a stored property-breaking change to /repo's working tree, runs the
# quick check of each given property, and restores the tree. Never commits.
set -u
name=$1; shift
cd /verif
export VERIF_OUT_DIR=/tmp/seeded_out GOFLAGS=-mod=mod GOPROXY=off GOSUMDB=off GOTOOLCHAIN=local
# hold the build lock while the broken tree is in place (background checks
# started with VERIF_BUILD_LOCK=/tmp/verif_repo.lock wait for it)
exec 9>/tmp/verif_repo.lock
flock 9
unset VERIF_BUILD_LOCK
if ! git -C /repo diff --quiet; then echo "/repo has uncommitted changes"; exit 2; fi
git -C /repo apply /verif/seeded/$name/patch.diff || exit 2
trap 'git -C /repo checkout -- .' EXIT
for id in "$@"; do
  start=$(date +%s)
  out=$(timeout 900 bin/verif check $id --tier quick 2>&1)
  rc=$?
  end=$(date +%s)
  echo "== $name vs $id: exit $rc in $((end-start))s"
  echo "$out" | grep -E "^violation|^VIOLATION|runs," | cut -c1-400 | head -12
done
