#!/usr/bin/env python3
"""Regenerates /verif/MANIFEST.json from the table below (kept next to the checks it describes)."""
import json, sys

TECH = "deterministic simulation with fault injection (seeded one-goroutine-at-a-time scheduler over the real library in a synctest bubble, virtual time, in-memory carrier stub, history oracles, shrunk replay files)"
NOTE = ("trusted base: the carrier stub (in-memory model of grpc-go's bidirectional stream contract, grpc-go v1.75.1 stream.go semantics), the overlay rewriter that routes sync/atomic/go/select through the simulator, "
        "and the oracle code; interleavings at synchronisation-operation granularity; dependencies run real code but are not instrumented; sampling, not proof")

CHECKS = {
 "C01": ("exploration", "seeded search over configurations x workloads x fault placements x schedules; every run compares, per RPC and direction, what was received with what was submitted (prefix, byte equality, completeness at normal end)", "6 C01"),
 "C02": ("exploration", "seeded search over handler header/trailer/status scripts, metadata and call-option combinations and caller read orders x schedules; a reference model of the gRPC metadata/status contract is compared with what the caller and handler observed, including trailers read with no scheduling step after the terminal result", "6 C02"),
 "C03": ("exploration", "seeded search over bystander workloads x disturber kinds (handler error, unknown/malformed method, refusal after shutdown, cancel, expiry, never-reading caller/handler, invalid strings) x relative timings (free-running or gated) x schedules; the disturbance is left to settle to final quiescence, then bystanders must finish as planned, the tunnel must be up, a fresh RPC must succeed", "6 C03"),
 "C04": ("fault_enumeration", "for seeded baselines every termination cause is injected at every frame boundary (thorough) or a stratified sample (quick), each run driven to final quiescence with all timers fired; oracles: nothing still blocked, Done/Err, serving calls returned, in-flight calls non-OK, late RPCs fail at once", "6 C04"),
 "C05": ("exploration", "seeded search at the granularity of single atomic operations over the flow-control sender and receiver in isolation (verif constructors; windows 1..65536; producer, frame pump, credit pump, pausing consumer, canceller) with a conservation invariant checked atomically after every harness step, stall classification (legitimate only with a parked consumer on a full window) and full restoration of the window at the end; plus whole-tunnel runs with many streams, stalled-then-resumed consumers, carrier capacity from one frame, and volume runs of 70000-200000 one-byte messages", "6 C05"),
 "C06": ("exploration", "the wire monitor's window, chunk and credit rules (written from tunnel.proto) run on every frame of the message-flow, flow-control and teardown runs; a raw peer in both roles overruns the 64 KiB window by 1 byte .. 16 windows (one message or many, several chunk sizes, with and without genuinely consumed messages first) while the application is parked; oracles: queued bytes (verif accessor) <= window, the RPC ends ResourceExhausted, an in-flight bystander and a fresh RPC complete", "6 C06"),
 "C07": ("fault_enumeration", "for seeded baselines the RPC of interest is cancelled at every frame boundary (thorough) or a stratified sample (quick), plus a variant that holds back all delivery towards the caller, plus virtual-time deadlines; oracles: exactly one legal outcome, handler released, bystanders and a fresh RPC unaffected", "6 C07"),
 "C08": ("exploration", "seeded search: many goroutines released together start RPCs on one channel (some failing at start) under lock-granularity schedules, with the wire monitor checking that ids strictly increase and begin with new_stream and the history checking one invocation of the named handler per completed call; plus a raw tunnel client (both network roles) that reuses, reverses, negates, skips ids and sends frames for finished ids, followed by a probe stream", "6 C08"),
 "C09": ("exploration", "seeded search over frame conversations generated from the protocol grammar with 0-3 deviations (drop, duplicate, swap, id rewrites, wrong sizes, oversize chunks, bad/empty method names, continuation without envelope, bad revisions, empty frames, absurd windows and window updates, extra half-close/cancel), in both roles and both network roles, followed by a probe stream and hang-up; oracles: no panic, nothing blocked and nothing retained at final quiescence, buffered bytes per stream <= one window, and the outcome class (stream-level vs tunnel-level) predicted by running the documented stream-id rules over the frame list", "6 C09"),
 "C10": ("fault_enumeration", "for seeded baselines graceful shutdown (InitiateShutdown / GracefulStop in its own goroutine) is initiated at every frame boundary (thorough) or a stratified sample (quick) of a workload of in-flight RPCs, further RPCs are attempted afterwards, the run is driven to final quiescence and Stop is called; oracles: RPCs started after shutdown took effect are refused with Unavailable and never reach a handler, in-flight RPCs complete as planned, the tunnel stays up for them, GracefulStop/Stop return when they should", "6 C10"),
 "C11": ("exploration", "the configuration matrix {client, server} x {enabled, disabled, legacy revision-zero raw peer} x {forward, reverse} and a list of 20 settings variants (revision lists, windows, wrong ids, wrong / missing first frames) are finite and drawn uniformly, each many times, under sampled schedules; oracles: settings sent iff both ends advertise, flow control (revision one, window updates) in use iff both enabled, highest common revision chosen, an empty list means revision zero, legacy peers never see settings / window updates / revision one, all four shapes work in every workable cell, unworkable exchanges fail the tunnel with an error and RPCs fail without virtual time passing", "6 C11"),
 "C12": ("exploration", "seeded search over histories of reverse tunnels opened (colliding / nil affinity keys) and closed (context cancel, server-side Close, carrier failure, Stop) interleaved at lock granularity with client goroutines routing RPCs and calling Ready / WaitForReady / AllReverseTunnels; at every quiescent point the registry is compared with the ground truth and round-robin is tested on every pool; routing, WaitForReady results and callbacks are checked against tunnel lifetimes; each pool's history is checked with porcupine for linearizability against a sequential set model", "6 C12"),
 "C13": ("exploration", "every frame of every explored run (message-flow, teardown, metadata families) is fed, at emission and at delivery, to a protocol automaton written from tunnel.proto (appendix A)", "6 C13, appendix A"),
 "C15": ("exploration", "the Go race detector used as an invariant monitor over simulator-chosen schedules: in the -race build of the simulator every scheduler entry point is norace and brackets its hand-offs with RaceDisable/RaceEnable, locks and atomics wrap the real primitives, so a serialised execution carries exactly the production happens-before edges; families concurrent (RPC starts, one sender + one receiver per stream, Header/Trailer/option targets read right after their completion signal, Close/Stop/GracefulStop/InitiateShutdown/registry queries at random steps) and identity run under it; a report halts the worker and is attributed to the seed in flight; panics and deadlocks are found by the plain build of the same families", "6 C15, 2.8"),
 "C16": ("exploration", "seeded search over shape cases: raw client vs real server and raw server vs real client with 0-4 messages on the non-streaming side, arbitrary chunking, messages after the half-close/close, both network roles, negotiated and legacy; and applications that send twice on a non-streaming side (wire monitor: one envelope)", "6 C16"),
 "C14": ("exploration", "every run ends with a drain to final quiescence and a full shutdown; stream-table sizes are probed through the verif accessors and every goroutine the library started is accounted for by spawn site", "6 C14"),
 "C17": ("exploration", "seeded search over tunnel-opening metadata / peer / context values x {forward, reverse with several tunnels behind one handler, nested} x concurrent RPCs whose handlers and callers call TunnelMetadataFromIncomingContext / TunnelMetadataFromOutgoingContext / TunnelChannelFromContext / WithTunnelChannel, mutate the returned metadata in place and read again; compared with the ground truth of which tunnel carried the RPC. Schedules matter only through concurrency of mutation and routing; the race oracle for the same family is part of C15", "6 C17"),
 "C18": ("exploration", "seeded generation of grpc-timeout header values from 16 classes (all units; 1-8 digits, leading zeros, more than eight digits, around and beyond int64 overflow, signs, spaces, empty / missing parts, unknown units, non-decimal digits, repeated headers) on tunnels with and without their own deadline; each handler's ctx.Deadline() is compared with an independent implementation of the gRPC wire specification relative to a control RPC, and for durations up to 40 days the virtual clock is run to the expiry, which must fall exactly there. The quantifier is over inputs; the simulator contributes the virtual clock, not a schedule search", "6 C18"),
}

NOT_YET = {}

def main():
    props = [json.loads(l) for l in open('/verif/properties.jsonl')]
    ids = [p['id'] for p in props]
    checks = []
    for pid in ids:
        if pid not in CHECKS:
            continue
        level, text, ref = CHECKS[pid]
        checks.append({
            "property_id": pid,
            "quick_cmd": f"bin/verif check {pid} --tier quick",
            "thorough_cmd": f"bin/verif check {pid} --tier thorough",
            "evidence_file": f"/verif/evidence/{pid}.json",
            "replay_cmd_template": "bin/verif replay {path}",
            "engine": "detsim",
            "level_claimed": {"category": level, "text": text, "design_ref": "DESIGN.md " + ref},
            "level_note": NOTE,
            "technique": TECH,
        })
    na = []
    for pid in ids:
        if pid not in CHECKS:
            na.append({"property_id": pid, "reason": NOT_YET.get(pid, "check under construction in this session (deterministic simulation applies; see DESIGN.md 6)")})
    hooks_commits = [l.strip() for l in open('/verif/tools/hook_commits.txt') if l.strip()]
    m = {
        "version": 1,
        "setup_cmd": "cd /verif && export GOFLAGS=-mod=mod GOPROXY=off GOSUMDB=off GOTOOLCHAIN=local && go1.26.8 build -o bin/verif ./cmd/verif && go1.26.8 build -o bin/simrewrite ./cmd/simrewrite && bin/verif build race >/dev/null",
        "hooks": {
            "guard": "verif",
            "enable": "checks build the simulator with `go1.26.8 test -c -tags verif -overlay <scratch overlay of /repo>`; the only committed hook is /repo/verif_hooks.go (//go:build verif, add-only accessors); yield points are inserted at check time into the overlay copy, never into /repo",
            "baseline_off_cmd": "cd /repo && go test -mod=mod -vet=off -count=1 -timeout 25m ./...",
            "source_commits": hooks_commits,
            "add_only": True,
        },
        "engines": [{
            "name": "detsim", "path": "/verif/bin/verif", "serves_properties": [c["property_id"] for c in checks],
            "kind_free_text": "deterministic simulation with fault injection: seeded one-goroutine-at-a-time scheduler over the real library inside a testing/synctest bubble (virtual time), in-memory carrier stub with back-pressure/latency/failure, scripted actors and raw peers, history oracles, choice-sequence shrinking and exact replay",
        }],
        "checks": checks,
        "notes": "known_findings.json lists genuine defects (known / fixed); replays/regression holds the minimised replays of fixed findings, re-run first by every quick check.",
    }
    if na:
        m["not_applicable"] = na
    json.dump(m, open('/verif/MANIFEST.json', 'w'), indent=1)
    print("checks:", [c["property_id"] for c in checks], "not claimed:", [n["property_id"] for n in na])

main()
