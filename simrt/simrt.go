// Package simrt is the deterministic scheduler at the heart of the simulator.
//
// Exactly one simulated goroutine is released at a time; which one is decided
// by a Chooser (a seeded PRNG in search mode, a recorded list in replay mode).
// The scheduler runs in the root goroutine of a testing/synctest bubble and
// uses synctest.Wait to learn that every other goroutine is durably blocked
// (parked at a yield point, blocked on a simulated mutex, or blocked in the Go
// runtime on a channel / Cond / WaitGroup / timer).
//
// All state lives in fixed arrays and every entry point is //go:norace with
// RaceDisable/RaceEnable brackets, so that in a -race build the simulator's own
// hand-offs add no happens-before edges between simulated goroutines and the
// race detector can judge the serialised execution (DESIGN.md 2.8).
package simrt

import (
	"fmt"
	"runtime"
	"sync"
	"sync/atomic"
	"testing/synctest"
	"time"
	"unsafe"
)

// Yield classes. ClassWake is mandatory (it closes the window in which a
// goroutine woken by the Go runtime runs concurrently with its waker); the
// others are scheduling granularity and can be switched off per run.
const (
	ClassWake   = 0 // after a blocking runtime operation returned
	ClassLock   = 1 // before Mutex/RWMutex/Once acquisition (mandatory too: a Cond waiter re-locks L right after the runtime woke it)
	ClassAtomic = 2 // before an atomic operation
	ClassChan   = 3 // before a channel operation / select / close
	ClassGo     = 4 // goroutine start
	ClassApp    = 5 // harness: before an application-level operation
	numClasses  = 6
)

const (
	MaxG    = 1 << 17 // goroutines ever started in one run
	gChunk  = 64
	tabBits = 18
	tabSize = 1 << tabBits // open addressing over g addresses
	tChunk  = 64
)

const (
	stFree           int32 = iota
	stOut                  // released: running, or blocked inside the Go runtime
	stParked               // at a yield point; schedulable
	stBlocked              // waiting for Wake(key); not schedulable
	stIdleWait             // waiting for "nothing enabled at the current virtual time"
	stStallWait            // waiting for "nothing enabled and no timer will change that"
	stBlockedOrStall       // waiting for Wake(key), or for a stall
	stDone
)

// Chooser is the single source of every decision in a run.
type Chooser interface {
	Intn(n int, label string) int
}

// G is one simulated goroutine.
type G struct {
	idx       int
	Name      string // structural: parent name + "." + parent's spawn counter
	SpawnSite string
	goid      uint64
	release   chan struct{}
	state     int32
	key       uintptr
	spawns    int
	class     uint8
	pc        uintptr // call site of the yield it is parked at
	prio      int     // PCT priority
	fn        func()
	livePos   int32
	noYield   int  // >0: inside Atomically; yields do not park
	stalled   bool // set when a stBlockedOrStall wait was ended by a stall
	Daemon    bool // harness helper goroutine: not counted as live for leak purposes
	Adopted   bool // not started through Go: a goroutine started inside a dependency (context.AfterFunc, time.AfterFunc ...) that entered simulated code
	wrapped   bool // adopted through Wrap: its end is seen, so it is accounted like any other goroutine
}

type tabEntry struct {
	goid uint64
	idx  int32
}

// Policy kinds.
const (
	PolRandom = iota
	PolSticky
	PolPCT
	PolStarve
	PolRoundRobin
	NumPolicies
)

// Config of one run's scheduler.
type Config struct {
	Policy       int
	StickyPct    int    // PolSticky: probability (percent) to continue the last goroutine
	PCTDepth     int    // PolPCT: number of priority change points
	PCTHorizon   int    // PolPCT: change points are drawn in [0,horizon)
	StarveMatch  string // PolStarve: goroutines whose name has this prefix run only when nothing else can
	ClassMask    uint32 // bit per class: yield really parks
	MaxSteps     int64
	StallAdvance time.Duration
	KeepLog      bool // keep the full schedule log (determinism self-test, replay files)
}

// StepRec is one scheduling decision.
type StepRec struct {
	G     int32
	Class uint8
	PC    uintptr
}

// Result of a run.
type Result struct {
	Steps          int64
	Digest         uint64
	Stalled        bool // ended with live goroutines that can never run again
	Budget         bool // step budget exhausted
	Halted         bool // Halt() was called
	Live           []*G // goroutines not finished when the run ended (excluding daemons)
	SwitchPairs    int
	UnknownYields  int64
	UnknownSpawns  int64
	VirtualElapsed time.Duration // excluding the jumps made to confirm a stall
	Panics         []PanicRec
	MaxLive        int
}

// PanicRec is a panic recovered from a simulated goroutine.
type PanicRec struct {
	G     string
	Site  string
	Value string
	Stack string
	Seq   int64
}

// Sim is one run's scheduler state.
type Sim struct {
	cfg Config
	ch  Chooser

	mu sync.Mutex // real; protects tab during concurrent self-registration; never held while parked
	// Storage is chunked and allocated on first touch so that a small run pays
	// for a small simulator; goroutine ids of one run are nearly consecutive, so
	// the id table (indexed by id modulo its size) touches few chunks.
	gchunks [MaxG / gChunk]*[gChunk]G
	ng      int
	tchunks [tabSize / tChunk]*[tChunk]tabEntry
	live    []int32 // indexes of goroutines that have not finished
	nlive   int

	wakeSched chan struct{}
	steps     int64
	seq       int64 // global event sequence number
	digest    uint64
	last      int // index of the goroutine released last
	lastPC    uintptr
	halt      bool
	poison    bool
	start     time.Time

	enabled []int32
	cand    []int32
	nen     int

	pctChange [8]int64
	pctNext   int

	log []StepRec

	pairs  [pairTab]uint64
	npairs int

	res Result

	unknownYields atomic.Int64
	unknownSpawns atomic.Int64

	// spawnMu (real, never held while parked) serialises goroutine creation:
	// an adopted goroutine registers itself while a simulated one is running.
	spawnMu sync.Mutex
	adopted int

	hb byte // address used by racePublish / raceCollect

	classCount [numClasses]int64

	stallJumped time.Duration

	ev       evLog
	counters [NumCounters]int64
}

const pairTab = 1 << 14

var cur atomic.Pointer[Sim]

// Heartbeat is bumped at every scheduler step; a watchdog outside the bubble
// reads it with real time to detect a run that no longer makes progress.
var Heartbeat atomic.Int64

// Active reports whether a simulator is installed.
//
//go:norace
func Active() bool { return cur.Load() != nil }

// goid identifies the calling goroutine. The address of its g is unique among
// live goroutines; a finished goroutine's g may be reused, which lookup
// detects (the stale entry points at a finished G) and register overwrites.
//
//go:norace
func goid() uint64 { return uint64(getg()) }

//go:norace
func (s *Sim) g(i int) *G {
	c := s.gchunks[i/gChunk]
	return &c[i%gChunk]
}

//go:norace
func (s *Sim) tabEntry(h uint64, create bool) *tabEntry {
	c := s.tchunks[h/tChunk]
	if c == nil {
		if !create {
			return nil
		}
		c = new([tChunk]tabEntry)
		s.tchunks[h/tChunk] = c
	}
	return &c[h%tChunk]
}

//go:norace
func (s *Sim) lookup(id uint64) *G {
	h := ((id >> 6) * 0x9E3779B97F4A7C15) >> (64 - tabBits)
	s.mu.Lock()
	for {
		e := s.tabEntry(h, false)
		if e == nil || e.goid == 0 {
			s.mu.Unlock()
			return nil
		}
		if e.goid == id {
			g := s.g(int(e.idx))
			s.mu.Unlock()
			if g.state == stDone {
				return nil // a reused g: whoever runs on it now is not simulated
			}
			return g
		}
		h = (h + 1) & (tabSize - 1)
	}
}

//go:norace
func (s *Sim) register(id uint64, idx int) {
	h := ((id >> 6) * 0x9E3779B97F4A7C15) >> (64 - tabBits)
	s.mu.Lock()
	for {
		e := s.tabEntry(h, true)
		if e.goid == 0 || e.goid == id {
			e.goid = id
			e.idx = int32(idx)
			break
		}
		h = (h + 1) & (tabSize - 1)
	}
	s.mu.Unlock()
}

// self returns the active simulator and the calling goroutine's G, or nil.
//
//go:norace
func self() (*Sim, *G) {
	s := cur.Load()
	if s == nil {
		return nil, nil
	}
	g := s.lookup(goid())
	return s, g
}

// New creates a simulator. Must be called inside the synctest bubble.
func New(cfg Config, ch Chooser) *Sim {
	s := &Sim{cfg: cfg, ch: ch}
	s.wakeSched = make(chan struct{}, 1)
	if cfg.MaxSteps == 0 {
		s.cfg.MaxSteps = 5_000_000
	}
	if cfg.StallAdvance == 0 {
		s.cfg.StallAdvance = 365 * 24 * time.Hour
	}
	if cfg.KeepLog {
		s.log = make([]StepRec, 0, 1<<16)
	}
	s.last = -1
	s.digest = 14695981039346656037
	return s
}

// SetMaxSteps raises (or lowers) the step budget of the running simulation: a
// workload that knows its own size sets a budget in proportion to it, so that
// the budget means "far more steps than this workload can need".
//
//go:norace
func SetMaxSteps(n int64) {
	if s := cur.Load(); s != nil && n > 0 {
		s.cfg.MaxSteps = n
	}
}

// Seq returns the next global event sequence number.
//
//go:norace
func Seq() int64 {
	s := cur.Load()
	if s == nil {
		return 0
	}
	raceDisable()
	s.seq++
	v := s.seq
	raceEnable()
	return v
}

// Steps returns the number of scheduling steps so far.
//
//go:norace
func Steps() int64 {
	s := cur.Load()
	if s == nil {
		return 0
	}
	return s.steps
}

// Choose draws a decision from the run's chooser (harness and rewritten selects).
//
//go:norace
func Choose(n int, label string) int {
	s := cur.Load()
	if s == nil || n <= 1 {
		return 0
	}
	raceDisable()
	v := s.ch.Intn(n, label)
	raceEnable()
	return v
}

// Halt asks the scheduler to end the run at the next step (used when a monitor
// has found a violation after which nothing is meaningful).
//
//go:norace
func Halt() {
	if s := cur.Load(); s != nil {
		s.halt = true
	}
}

//go:norace
func (s *Sim) spawn(parent *G, site string, fn func(), daemon bool) *G {
	if s.ng >= MaxG {
		panic("simrt: too many goroutines")
	}
	if s.gchunks[s.ng/gChunk] == nil {
		s.gchunks[s.ng/gChunk] = new([gChunk]G)
	}
	g := s.g(s.ng)
	g.idx = s.ng
	s.ng++
	// live list (manual growth: no append in norace code)
	s.mu.Lock()
	if s.nlive >= len(s.live) {
		nl := make([]int32, 2*len(s.live)+64)
		for i := 0; i < s.nlive; i++ {
			nl[i] = s.live[i]
		}
		s.live = nl
		s.enabled = make([]int32, len(nl))
		s.cand = make([]int32, len(nl))
	}
	g.livePos = int32(s.nlive)
	s.live[s.nlive] = int32(g.idx)
	s.nlive++
	s.mu.Unlock()
	if parent == nil && g.idx != 0 {
		// arrival order; deterministic as long as adoptions do not overlap
		g.Name = "x" + itoa(s.adopted)
		s.adopted++
		g.Adopted = true
	} else if parent == nil {
		g.Name = "m"
	} else {
		g.Name = parent.Name + "." + itoa(parent.spawns)
		parent.spawns++
	}
	g.SpawnSite = site
	g.release = make(chan struct{}, 1)
	g.state = stParked
	g.class = ClassGo
	g.fn = fn
	g.Daemon = daemon
	if live := s.liveCount(); live > s.res.MaxLive {
		s.res.MaxLive = live
	}
	// The real go statement stays outside any RaceDisable bracket so that the
	// legitimate fork edge (parent -> child) is visible to the race detector.
	return g
}

//go:norace
func (s *Sim) body(g *G) {
	raceDisable()
	s.register(goid(), g.idx)
	<-g.release
	raceEnable()
	if s.poison {
		s.finish(g)
		return
	}
	defer func() {
		if r := recover(); r != nil && !s.poison {
			var buf [16384]byte
			n := runtime.Stack(buf[:], false)
			s.recordPanic(g, r, string(buf[:n]))
		}
		s.finish(g)
	}()
	g.fn()
}

//go:norace
func (s *Sim) recordPanic(g *G, r any, stack string) {
	val := fmt.Sprint(r) // outside the bracket: fmt synchronises through a sync.Pool
	raceDisable()
	s.seq++
	s.res.Panics = append(s.res.Panics, PanicRec{G: g.Name, Site: g.SpawnSite, Value: val, Stack: stack, Seq: s.seq})
	s.halt = true
	raceEnable()
}

//go:norace
func (s *Sim) finish(g *G) {
	racePublish(unsafe.Pointer(&s.hb))
	raceDisable()
	s.mu.Lock()
	g.state = stDone
	g.fn = nil
	// swap-remove from the live list
	last := s.live[s.nlive-1]
	s.live[g.livePos] = last
	s.g(int(last)).livePos = g.livePos
	s.nlive--
	s.mu.Unlock()
	select {
	case s.wakeSched <- struct{}{}:
	default:
	}
	raceEnable()
}

// Go starts fn as a simulated goroutine (or a plain goroutine when no simulator
// is active or the caller is not itself simulated).
//
//go:norace
func Go(site string, fn func()) {
	goImpl(site, fn, false)
}

// GoDaemon starts a harness helper goroutine that may legitimately outlive the
// workload (it is not reported as a leak).
//
//go:norace
func GoDaemon(site string, fn func()) {
	goImpl(site, fn, true)
}

//go:norace
func goImpl(site string, fn func(), daemon bool) {
	s, g := self()
	if s == nil {
		go fn()
		return
	}
	if s.poison {
		return // the run is over; nothing new starts
	}
	if g == nil {
		s.unknownSpawns.Add(1)
		g = s.adopt("adopted", false)
		if g == nil {
			return
		}
	}
	raceDisable()
	s.spawnMu.Lock()
	c := s.spawn(g, site, fn, daemon)
	s.spawnMu.Unlock()
	raceEnable()
	go s.body(c)
}

// adopt makes the calling goroutine, which was not started through Go, a
// simulated one: it is registered and parks until the scheduler releases it.
// Goroutines started inside dependencies (context.AfterFunc, time.AfterFunc)
// get here at their first synchronisation operation in rewritten code; until
// then they have run beside the scheduled goroutine. Returns nil when the run
// is being torn down.
//
//go:norace
func (s *Sim) adopt(site string, wrapped bool) *G {
	if s.poison {
		freeze()
	}
	raceDisable()
	s.spawnMu.Lock()
	g := s.spawn(nil, site, nil, !wrapped)
	g.wrapped = wrapped
	s.spawnMu.Unlock()
	s.register(goid(), g.idx)
	select {
	case s.wakeSched <- struct{}{}:
	default:
	}
	<-g.release
	raceEnable()
	if s.poison {
		freeze()
	}
	return g
}

// Wrap returns fn as a function that runs as a simulated goroutine when it is
// started by a dependency on a goroutine of its own (the rewriter wraps the
// callbacks given to context.AfterFunc and time.AfterFunc with it).
func Wrap(site string, fn func()) func() {
	return func() {
		s := cur.Load()
		if s == nil {
			fn()
			return
		}
		if s.lookupLive() != nil {
			// called synchronously on a simulated goroutine
			fn()
			return
		}
		g := s.adopt(site, true)
		defer func() {
			if r := recover(); r != nil && !s.poison {
				var buf [16384]byte
				n := runtime.Stack(buf[:], false)
				s.recordPanic(g, r, string(buf[:n]))
			}
			s.finish(g)
		}()
		fn()
	}
}

// lookupLive returns the calling goroutine's G if it is a live simulated one.
//
//go:norace
func (s *Sim) lookupLive() *G {
	g := s.lookup(goid())
	if g != nil && g.state == stDone {
		return nil
	}
	return g
}

// Yield is a scheduling point: the calling goroutine parks until released.
//
//go:norace
func Yield(class uint8) {
	s, g := self()
	if s == nil {
		return
	}
	if g == nil {
		s.unknownYields.Add(1)
		g = s.adopt("adopted", false)
	}
	if s.poison {
		s.stop(g)
	}
	if g.noYield > 0 {
		return
	}
	if class > ClassLock && s.cfg.ClassMask&(1<<class) == 0 {
		return
	}
	var pcs [1]uintptr
	runtime.Callers(3, pcs[:])
	s.park(g, stParked, 0, class, pcs[0])
}

//go:norace
func (s *Sim) park(g *G, st int32, key uintptr, class uint8, pc uintptr) {
	racePublish(unsafe.Pointer(&s.hb))
	raceDisable()
	g.class = class
	g.pc = pc
	g.key = key
	g.state = st
	select {
	case s.wakeSched <- struct{}{}:
	default:
	}
	<-g.release
	raceEnable()
	if s.poison {
		s.stop(g)
	}
}

// BlockOn parks the caller until Wake(key) is called. Callers re-check their
// condition in a loop.
//
//go:norace
func BlockOn(key unsafe.Pointer) {
	s, g := self()
	if s == nil {
		// Not simulated: the caller spins on TryLock; be polite.
		runtime.Gosched()
		return
	}
	if g == nil {
		// adopted: it comes back runnable and re-checks its condition
		s.unknownYields.Add(1)
		s.adopt("adopted", false)
		return
	}
	if s.poison {
		s.stop(g)
	}
	s.park(g, stBlocked, uintptr(key), ClassLock, 0)
}

// Wake makes every goroutine blocked on key schedulable again.
//
//go:norace
func Wake(key unsafe.Pointer) {
	s := cur.Load()
	if s == nil {
		return
	}
	raceDisable()
	kk := uintptr(key)
	for k := 0; k < s.nlive; k++ {
		g := s.g(int(s.live[k]))
		if (g.state == stBlocked || g.state == stBlockedOrStall) && g.key == kk {
			g.state = stParked
		}
	}
	raceEnable()
}

// AwaitIdle parks the caller until no goroutine is enabled at the current
// virtual time (time is not advanced).
//
//go:norace
func AwaitIdle() {
	s, g := self()
	if s == nil || g == nil {
		panic("simrt.AwaitIdle outside simulation")
	}
	s.park(g, stIdleWait, 0, ClassApp, 0)
}

// AwaitStall parks the caller until nothing is enabled and advancing virtual
// time by the stall horizon enables nothing either.
//
//go:norace
func AwaitStall() {
	s, g := self()
	if s == nil || g == nil {
		panic("simrt.AwaitStall outside simulation")
	}
	s.park(g, stStallWait, 0, ClassApp, 0)
}

// WaitOrStall parks the caller until Wake(key) (returns true) or until the run
// stalls: nothing is enabled and the stall horizon passes without any reaction
// (returns false). Callers re-check their condition.
//
//go:norace
func WaitOrStall(key unsafe.Pointer) bool {
	s, g := self()
	if s == nil || g == nil {
		panic("simrt.WaitOrStall outside simulation")
	}
	g.stalled = false
	s.park(g, stBlockedOrStall, uintptr(key), ClassApp, 0)
	return !g.stalled
}

// Atomically runs f without any scheduling point: every yield inside returns
// at once. f must not block (it may take locks that no parked goroutine holds).
// Used by harness monitors to take a consistent snapshot of several variables.
//
//go:norace
func Atomically(f func()) {
	_, g := self()
	if g == nil {
		f()
		return
	}
	g.noYield++
	defer func() { g.noYield-- }()
	f()
}

// Sleep sleeps in virtual time and yields on wake-up.
func Sleep(d time.Duration) {
	time.Sleep(d)
	Yield(ClassWake)
}

// Recv is the rewritten form of a blocking channel receive expression.
func Recv[T any](ch <-chan T) T {
	Yield(ClassChan)
	v := <-ch
	Yield(ClassWake)
	return v
}

// Recv2 is the rewritten form of `v, ok := <-ch`.
func Recv2[T any](ch <-chan T) (T, bool) {
	Yield(ClassChan)
	v, ok := <-ch
	Yield(ClassWake)
	return v, ok
}

// Send is the rewritten form of a send statement outside a select.
func Send[T any](ch chan<- T, v T) {
	Yield(ClassChan)
	ch <- v
	Yield(ClassWake)
}

// SelectOrder fills order with a chooser-drawn permutation of 0..n-1.
//
//go:norace
func SelectOrder(order []int) {
	n := len(order)
	for i := range order {
		order[i] = i
	}
	s := cur.Load()
	if s == nil || n < 2 {
		return
	}
	for i := 0; i < n-1; i++ {
		j := i + Choose(n-i, "sel")
		order[i], order[j] = order[j], order[i]
	}
}

// Name returns the structural name of the calling goroutine ("" if not simulated).
//
//go:norace
func Name() string {
	_, g := self()
	if g == nil {
		return ""
	}
	return g.Name
}

// VirtualNow returns virtual time elapsed since the run started.
func VirtualNow() time.Duration {
	s := cur.Load()
	if s == nil {
		return 0
	}
	return time.Since(s.start)
}

//go:norace
func (s *Sim) liveCount() int {
	if s.adopted == 0 {
		return s.nlive
	}
	// an adopted goroutine whose end cannot be seen counts only while it is
	// parked in the simulator
	n := 0
	for k := 0; k < s.nlive; k++ {
		g := s.g(int(s.live[k]))
		if g.Adopted && !g.wrapped && g.state == stOut {
			continue
		}
		n++
	}
	return n
}

//go:norace
func (s *Sim) find(st int32) *G {
	// lowest index first (the director, goroutine 0, is found before others)
	var best *G
	for k := 0; k < s.nlive; k++ {
		g := s.g(int(s.live[k]))
		if g.state == st && (best == nil || g.idx < best.idx) {
			best = g
		}
	}
	return best
}

// less orders goroutines by structural name (length first keeps it cheap and total).
//
//go:norace
func (s *Sim) less(a, b int32) bool {
	x, y := s.g(int(a)).Name, s.g(int(b)).Name
	if len(x) != len(y) {
		return len(x) < len(y)
	}
	return x < y
}

//go:norace
func (s *Sim) collect() int {
	n := 0
	for k := 0; k < s.nlive; k++ {
		i := s.live[k]
		if s.g(int(i)).state == stParked {
			// insertion sort by name
			j := n
			s.enabled[n] = i
			n++
			for j > 0 && s.less(s.enabled[j], s.enabled[j-1]) {
				s.enabled[j], s.enabled[j-1] = s.enabled[j-1], s.enabled[j]
				j--
			}
		}
	}
	s.nen = n
	return n
}

//go:norace
func hasPrefix(s, p string) bool { return len(s) >= len(p) && s[:len(p)] == p }

//go:norace
func (s *Sim) pick() int32 {
	n := s.nen
	if n == 1 {
		return s.enabled[0]
	}
	// position of the goroutine that ran last, if still enabled
	lastPos := -1
	for i := 0; i < n; i++ {
		if int(s.enabled[i]) == s.last {
			lastPos = i
			break
		}
	}
	switch s.cfg.Policy {
	case PolSticky:
		if lastPos >= 0 && s.ch.Intn(100, "stick") < s.cfg.StickyPct {
			return s.enabled[lastPos]
		}
	case PolStarve:
		// goroutines matching the prefix are offered only if nothing else is enabled
		m := 0
		cand := s.cand
		for i := 0; i < n; i++ {
			if !hasPrefix(s.g(int(s.enabled[i])).Name, s.cfg.StarveMatch) {
				cand[m] = s.enabled[i]
				m++
			}
		}
		if m > 0 && s.ch.Intn(100, "starve") < 97 {
			if m == 1 {
				return cand[0]
			}
			return cand[s.ch.Intn(m, "sched")]
		}
	case PolPCT:
		// change points lower the priority of the running goroutine
		for s.pctNext < s.cfg.PCTDepth && s.steps >= s.pctChange[s.pctNext] {
			if s.last >= 0 {
				s.g(s.last).prio = -int(s.pctNext) - 1
			}
			s.pctNext++
		}
		best := int32(-1)
		for i := 0; i < n; i++ {
			g := s.g(int(s.enabled[i]))
			if g.prio == 0 {
				g.prio = 1 + s.ch.Intn(1<<20, "prio")
			}
			if best < 0 || g.prio > s.g(int(best)).prio {
				best = s.enabled[i]
			}
		}
		return best
	case PolRoundRobin:
		if s.ch.Intn(100, "rrnoise") >= 10 {
			// next by name after the last one
			if lastPos >= 0 {
				return s.enabled[(lastPos+1)%n]
			}
			return s.enabled[0]
		}
	}
	// uniform; value 0 means "continue the goroutine that ran last, else first by name"
	v := s.ch.Intn(n, "sched")
	if lastPos > 0 {
		// rotate so that index 0 is the last-run goroutine
		if v == 0 {
			return s.enabled[lastPos]
		}
		if v <= lastPos {
			return s.enabled[v-1]
		}
	}
	return s.enabled[v]
}

//go:norace
func (s *Sim) notePair(from, to uintptr) {
	if from == 0 && to == 0 {
		return
	}
	k := uint64(from)*0x9E3779B97F4A7C15 ^ uint64(to)
	if k == 0 {
		k = 1
	}
	h := (k * 0xBF58476D1CE4E5B9) >> 50
	for probes := 0; probes < 64; probes++ {
		if s.pairs[h] == k {
			return
		}
		if s.pairs[h] == 0 {
			s.pairs[h] = k
			s.npairs++
			return
		}
		h = (h + 1) & (pairTab - 1)
	}
}

// PairKeys returns the distinct (preempted site -> resumed site) keys seen.
func (s *Sim) PairKeys() []uint64 {
	out := make([]uint64, 0, s.npairs)
	for _, k := range s.pairs {
		if k != 0 {
			out = append(out, k)
		}
	}
	return out
}

// ClassCounts returns the number of steps taken per yield class.
func (s *Sim) ClassCounts() [numClasses]int64 { return s.classCount }

// Log returns the full schedule log (if kept).
func (s *Sim) Log() []StepRec { return s.log }

// GName returns the name of goroutine i.
func (s *Sim) GName(i int32) string { return s.g(int(i)).Name }

// Run executes main as the first simulated goroutine and schedules until every
// simulated goroutine has finished, the run stalls, or the budget is exhausted.
// It must be called from the root goroutine of a synctest bubble.
//
//go:norace
func (s *Sim) Run(main func()) *Result {
	s.start = time.Now()
	if s.cfg.Policy == PolPCT {
		if s.cfg.PCTDepth > len(s.pctChange) {
			s.cfg.PCTDepth = len(s.pctChange)
		}
		h := s.cfg.PCTHorizon
		if h <= 0 {
			h = 2000
		}
		for i := 0; i < s.cfg.PCTDepth; i++ {
			s.pctChange[i] = int64(s.ch.Intn(h, "pctpt"))
		}
		// sort
		for i := 1; i < s.cfg.PCTDepth; i++ {
			for j := i; j > 0 && s.pctChange[j] < s.pctChange[j-1]; j-- {
				s.pctChange[j], s.pctChange[j-1] = s.pctChange[j-1], s.pctChange[j]
			}
		}
	}
	cur.Store(s)
	g0 := s.spawn(nil, "main", main, false)
	go s.body(g0)

	stallRounds := 0
	for {
		synctest.Wait()
		Heartbeat.Add(1)
		if s.halt {
			s.res.Halted = true
			break
		}
		if s.collect() == 0 {
			if g := s.find(stIdleWait); g != nil {
				g.state = stParked
				continue
			}
			if s.liveCount() == 0 {
				break
			}
			if s.advance() {
				stallRounds = 0
				continue
			}
			// nothing happened within the stall horizon
			if g := s.find(stStallWait); g != nil && stallRounds < 64 {
				stallRounds++
				g.state = stParked
				continue
			}
			if g := s.find(stBlockedOrStall); g != nil && stallRounds < 64 {
				stallRounds++
				g.stalled = true
				g.state = stParked
				continue
			}
			s.res.Stalled = true
			break
		}
		if s.steps >= s.cfg.MaxSteps {
			s.res.Budget = true
			break
		}
		i := s.pick()
		g := s.g(int(i))
		s.steps++
		s.classCount[g.class]++
		s.digest = (s.digest ^ uint64(i)) * 1099511628211
		s.digest = (s.digest ^ uint64(g.class)) * 1099511628211
		if int(i) != s.last {
			s.notePair(s.lastPC, g.pc)
		}
		if s.log != nil && len(s.log) < cap(s.log) {
			s.log = s.log[:len(s.log)+1]
			s.log[len(s.log)-1] = StepRec{G: i, Class: g.class, PC: g.pc}
		}
		s.last = int(i)
		s.lastPC = g.pc
		g.state = stOut
		g.release <- struct{}{}
	}
	raceCollect(unsafe.Pointer(&s.hb))
	s.res.VirtualElapsed = time.Since(s.start) - s.stallJumped
	s.res.Steps = s.steps
	s.res.Digest = s.digest
	s.res.SwitchPairs = s.npairs
	s.res.UnknownYields = s.unknownYields.Load()
	s.res.UnknownSpawns = s.unknownSpawns.Load()
	for k := 0; k < s.nlive; k++ {
		g := s.g(int(s.live[k]))
		if g.state != stDone && !g.Daemon {
			s.res.Live = append(s.res.Live, g)
		}
	}
	s.teardown()
	// The poisoned simulator stays installed until the bubble has ended
	// (Uninstall): goroutines that were blocked inside the Go runtime and wake
	// up now (their contexts get cancelled) must not fall through to the real
	// primitives; they exit at their first yield.
	return &s.res
}

// Uninstall removes the simulator after the bubble has ended.
func Uninstall() { cur.Store(nil) }

// advance lets virtual time move to the next timer. It reports whether some
// goroutine reacted (parked or finished) before the stall horizon.
//
//go:norace
func (s *Sim) advance() bool {
	select {
	case <-s.wakeSched: // stale token
	default:
	}
	t := time.NewTimer(s.cfg.StallAdvance)
	select {
	case <-s.wakeSched:
		t.Stop()
		return true
	case <-t.C:
		s.stallJumped += s.cfg.StallAdvance
		return false
	}
}

// teardown poisons the simulator and lets the harness helper goroutines
// (daemons) run to their end, so that an orderly run leaves an empty bubble.
// Goroutines of the library and of the actors that are still alive are left
// parked for good (see freeze).
//
//go:norace
func (s *Sim) teardown() {
	s.poison = true
	// release the reachable goroutines one at a time (each exits, which edits
	// the live list, so search afresh every time)
	for rounds := 0; rounds < MaxG; rounds++ {
		var g *G
		for k := 0; k < s.nlive; k++ {
			c := s.g(int(s.live[k]))
			if !c.Daemon || c.Adopted {
				continue // stays parked for good (see freeze)
			}
			switch c.state {
			case stParked, stBlocked, stIdleWait, stStallWait, stBlockedOrStall:
				g = c
			}
			if g != nil {
				break
			}
		}
		if g == nil {
			return
		}
		g.state = stOut
		g.release <- struct{}{}
		synctest.Wait()
	}
}

// Poisoned reports whether the run is being torn down (sync wrappers then stop
// simulating and fall through to the real primitives).
//
//go:norace
func Poisoned() bool {
	s := cur.Load()
	if s == nil || !s.poison {
		return false
	}
	if g := s.lookup(goid()); g != nil && g.Daemon && !g.Adopted {
		return true // a harness helper on its way out: its sync operations are no-ops
	}
	freeze()
	return true
}

// freeze stops the calling goroutine for good. Once a run is over (poisoned),
// goroutines of the library and of the actors are not unwound: their deferred
// calls would run without the program's synchronisation (the scheduler is
// gone), which is unsafe and would show up as false data-race reports. They
// stay durably blocked; the bubble ends with synctest's "blocked goroutines
// remain" panic, which RunOne expects.
//
//go:norace
func freeze() {
	select {}
}

// stop ends (harness daemon) or freezes (everything else) the calling
// goroutine of a poisoned simulator.
//
//go:norace
func (s *Sim) stop(g *G) {
	if g != nil && g.Daemon && !g.Adopted {
		runtime.Goexit()
	}
	freeze()
}

// LiveNonDaemon returns the number of simulated goroutines that have not
// finished, not counting harness daemons.
//
//go:norace
func LiveNonDaemon() int {
	s := cur.Load()
	if s == nil {
		return 0
	}
	n := 0
	for k := 0; k < s.nlive; k++ {
		g := s.g(int(s.live[k]))
		if g.state != stDone && g.state != stFree && !g.Daemon {
			n++
		}
	}
	return n
}

// LiveSites returns, for every spawn site, how many simulated goroutines
// started there are alive (harness daemons not counted), as "site=n" items in
// site order.
//
//go:norace
func LiveSites() []string {
	s := cur.Load()
	if s == nil {
		return nil
	}
	raceDisable()
	var sites []string
	var counts []int
	for k := 0; k < s.nlive; k++ {
		g := s.g(int(s.live[k]))
		if g.state == stDone || g.state == stFree || g.Daemon {
			continue
		}
		found := false
		for i := range sites {
			if sites[i] == g.SpawnSite {
				counts[i]++
				found = true
			}
		}
		if !found {
			sites = append(sites, g.SpawnSite)
			counts = append(counts, 1)
		}
	}
	// insertion sort by site
	for i := 1; i < len(sites); i++ {
		for j := i; j > 0 && sites[j] < sites[j-1]; j-- {
			sites[j], sites[j-1] = sites[j-1], sites[j]
			counts[j], counts[j-1] = counts[j-1], counts[j]
		}
	}
	out := make([]string, len(sites))
	for i := range sites {
		out[i] = sites[i] + "=" + itoa(counts[i])
	}
	raceEnable()
	return out
}

// LiveStacks returns the stacks of all goroutines (debug aid for leak reports).
func LiveStacks() string {
	buf := make([]byte, 1<<20)
	n := runtime.Stack(buf, true)
	return string(buf[:n])
}

//go:norace
func itoa(n int) string {
	if n == 0 {
		return "0"
	}
	var b [20]byte
	i := len(b)
	for n > 0 {
		i--
		b[i] = byte('0' + n%10)
		n /= 10
	}
	return string(b[i:])
}

// Close is the rewritten form of close(ch).
func Close[T any](ch chan<- T) {
	Yield(ClassChan)
	close(ch)
}
