//go:build !race

package simrt

// RaceBuild reports whether the binary was built with the race detector.
const RaceBuild = false

func raceDisable() {}
func raceEnable()  {}
