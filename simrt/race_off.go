//go:build !race

package simrt

import "unsafe"

// RaceBuild reports whether the binary was built with the race detector.
const RaceBuild = false

func raceDisable() {}
func raceEnable()  {}

func racePublish(addr unsafe.Pointer) {}
func raceCollect(addr unsafe.Pointer) {}
