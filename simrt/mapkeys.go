package simrt

import (
	"context"
	"sort"
	"sync/atomic"
)

// UnorderedMapKeys counts map iterations whose keys had no canonical order.
var UnorderedMapKeys atomic.Int64

// OrderKey is the context key under which the simulated carrier stores a
// stream's connection number.
type OrderKey struct{}

// Ordered is implemented by map keys that have no natural order (pointers,
// interface values) but a stable identity in the simulation.
type Ordered interface{ SimOrder() int64 }

// MapKeys returns the keys of m in an order that is a function of the run's
// choices only: canonical order (integers and strings by value, Ordered keys
// by their SimOrder) rotated by an amount the chooser picks. Keys without a
// canonical order are counted (UnorderedMapKeys) and left as the runtime
// delivered them.
func MapKeys[M ~map[K]V, K comparable, V any](m M) []K {
	keys := make([]K, 0, len(m))
	for k := range m {
		keys = append(keys, k)
	}
	if len(keys) < 2 {
		return keys
	}
	ord := make([]int64, len(keys))
	strs := make([]string, len(keys))
	kind := 0 // 1 int64-like, 2 string
	explore := false
	for i, k := range keys {
		switch v := any(k).(type) {
		case Ordered:
			ord[i], kind, explore = v.SimOrder(), 1, true
		case interface{ Context() context.Context }:
			// a stream (possibly wrapped by the library): the simulated carrier
			// puts its connection number into the stream's context
			id, ok := v.Context().Value(OrderKey{}).(int64)
			if !ok {
				UnorderedMapKeys.Add(1)
				return keys
			}
			ord[i], kind, explore = id, 1, true
		case int:
			ord[i], kind = int64(v), 1
		case int32:
			ord[i], kind = int64(v), 1
		case int64:
			ord[i], kind = v, 1
		case uint32:
			ord[i], kind = int64(v), 1
		case uint64:
			ord[i], kind = int64(v), 1
		case string:
			strs[i], kind = v, 2
		default:
			UnorderedMapKeys.Add(1)
			return keys
		}
	}
	idx := make([]int, len(keys))
	for i := range idx {
		idx[i] = i
	}
	sort.SliceStable(idx, func(a, b int) bool {
		if kind == 2 {
			return strs[idx[a]] < strs[idx[b]]
		}
		return ord[idx[a]] < ord[idx[b]]
	})
	rot := 0
	// (keys with a natural order are iterated in that order without a draw:
	// in this library their loop bodies contain no scheduling point)
	if explore && Active() && !Poisoned() {
		rot = Choose(len(keys), "maporder")
	}
	out := make([]K, len(keys))
	for i := range idx {
		out[i] = keys[idx[(i+rot)%len(idx)]]
	}
	return out
}
