package simrt

// getg returns the address of the current goroutine's g (getg_amd64.s).
func getg() uintptr
