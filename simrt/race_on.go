//go:build race

package simrt

import (
	"runtime"
	"unsafe"
)

// RaceBuild reports whether the binary was built with the race detector.
const RaceBuild = true

//go:norace
func raceDisable() { runtime.RaceDisable() }

//go:norace
func raceEnable() { runtime.RaceEnable() }

// racePublish / raceCollect: everything a simulated goroutine did before it
// parked or finished happens before what the scheduler's goroutine does after
// the run (history building, oracles). The edge is collected only once, after
// the run, so it adds no ordering between simulated goroutines.
//
//go:norace
func racePublish(addr unsafe.Pointer) { runtime.RaceReleaseMerge(addr) }

//go:norace
func raceCollect(addr unsafe.Pointer) { runtime.RaceAcquire(addr) }
