//go:build race

package simrt

import "runtime"

// RaceBuild reports whether the binary was built with the race detector.
const RaceBuild = true

//go:norace
func raceDisable() { runtime.RaceDisable() }

//go:norace
func raceEnable() { runtime.RaceEnable() }
