package simrt

import "time"

// Event is one entry of the run's history. The harness defines the kinds; the
// log itself lives here so that it can be written from any simulated goroutine
// without adding happens-before edges in a -race build (fixed chunks, written
// from //go:norace code inside RaceDisable brackets).
type Event struct {
	Seq  int64
	T    time.Duration // virtual time since run start
	G    int32         // simulated goroutine index (-1: not simulated)
	Kind int32
	A    int64
	B    int64
	C    int64
	D    int64
	S    string
	S2   string
	P    any
}

const (
	evChunk     = 1 << 12
	evChunks    = 1 << 10
	NumCounters = 256
)

type evLog struct {
	chunks [evChunks]*[evChunk]Event
	n      int
}

// Emit appends an event and returns its sequence number.
//
//go:norace
func Emit(e Event) int64 {
	s, g := self()
	if s == nil || s.poison {
		return 0
	}
	raceDisable()
	s.seq++
	e.Seq = s.seq
	e.T = time.Since(s.start)
	if g != nil {
		e.G = int32(g.idx)
	} else {
		e.G = -1
	}
	l := &s.ev
	ci, off := l.n/evChunk, l.n%evChunk
	if ci < evChunks {
		if l.chunks[ci] == nil {
			l.chunks[ci] = new([evChunk]Event)
		}
		l.chunks[ci][off] = e
		l.n++
	}
	raceEnable()
	return e.Seq
}

// Events returns the history in sequence order (call after Run returned).
//
//go:norace
func (s *Sim) Events() []Event {
	out := make([]Event, 0, s.ev.n)
	for i := 0; i < s.ev.n; i++ {
		out = append(out, s.ev.chunks[i/evChunk][i%evChunk])
	}
	return out
}

// EventsSoFar lets a simulated director goroutine look at the history so far.
//
//go:norace
func EventsSoFar() []Event {
	s := cur.Load()
	if s == nil {
		return nil
	}
	raceDisable()
	out := s.Events()
	raceEnable()
	return out
}

// Count adds d to counter i (probes, fault counters).
//
//go:norace
func Count(i int, d int64) {
	s := cur.Load()
	if s == nil || i < 0 || i >= NumCounters {
		return
	}
	s.counters[i] += d
}

// Counters returns the counter array.
func (s *Sim) Counters() [NumCounters]int64 { return s.counters }
