#include "textflag.h"

// func getg() uintptr
// Returns the address of the current goroutine's g: a cheap identity for the
// calling goroutine (parsing runtime.Stack costs a full traceback per call).
TEXT ·getg(SB),NOSPLIT,$0-8
	MOVQ (TLS), AX
	MOVQ AX, ret+0(FP)
	RET
