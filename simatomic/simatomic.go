// Package simatomic is an API-compatible stand-in for sync/atomic: every
// operation is a scheduling point followed by the REAL atomic operation.
package simatomic

import (
	"sync/atomic"
	"unsafe"

	"verif/simrt"
)

func y() { simrt.Yield(simrt.ClassAtomic) }

type Int32 struct{ v atomic.Int32 }

func (x *Int32) Load() int32                    { y(); return x.v.Load() }
func (x *Int32) Store(n int32)                  { y(); x.v.Store(n) }
func (x *Int32) Swap(n int32) int32             { y(); return x.v.Swap(n) }
func (x *Int32) CompareAndSwap(o, n int32) bool { y(); return x.v.CompareAndSwap(o, n) }
func (x *Int32) Add(d int32) int32              { y(); return x.v.Add(d) }
func (x *Int32) And(m int32) int32              { y(); return x.v.And(m) }
func (x *Int32) Or(m int32) int32               { y(); return x.v.Or(m) }

type Int64 struct{ v atomic.Int64 }

func (x *Int64) Load() int64                    { y(); return x.v.Load() }
func (x *Int64) Store(n int64)                  { y(); x.v.Store(n) }
func (x *Int64) Swap(n int64) int64             { y(); return x.v.Swap(n) }
func (x *Int64) CompareAndSwap(o, n int64) bool { y(); return x.v.CompareAndSwap(o, n) }
func (x *Int64) Add(d int64) int64              { y(); return x.v.Add(d) }
func (x *Int64) And(m int64) int64              { y(); return x.v.And(m) }
func (x *Int64) Or(m int64) int64               { y(); return x.v.Or(m) }

type Uint32 struct{ v atomic.Uint32 }

func (x *Uint32) Load() uint32                    { y(); return x.v.Load() }
func (x *Uint32) Store(n uint32)                  { y(); x.v.Store(n) }
func (x *Uint32) Swap(n uint32) uint32            { y(); return x.v.Swap(n) }
func (x *Uint32) CompareAndSwap(o, n uint32) bool { y(); return x.v.CompareAndSwap(o, n) }
func (x *Uint32) Add(d uint32) uint32             { y(); return x.v.Add(d) }
func (x *Uint32) And(m uint32) uint32             { y(); return x.v.And(m) }
func (x *Uint32) Or(m uint32) uint32              { y(); return x.v.Or(m) }

type Uint64 struct{ v atomic.Uint64 }

func (x *Uint64) Load() uint64                    { y(); return x.v.Load() }
func (x *Uint64) Store(n uint64)                  { y(); x.v.Store(n) }
func (x *Uint64) Swap(n uint64) uint64            { y(); return x.v.Swap(n) }
func (x *Uint64) CompareAndSwap(o, n uint64) bool { y(); return x.v.CompareAndSwap(o, n) }
func (x *Uint64) Add(d uint64) uint64             { y(); return x.v.Add(d) }
func (x *Uint64) And(m uint64) uint64             { y(); return x.v.And(m) }
func (x *Uint64) Or(m uint64) uint64              { y(); return x.v.Or(m) }

type Uintptr struct{ v atomic.Uintptr }

func (x *Uintptr) Load() uintptr                    { y(); return x.v.Load() }
func (x *Uintptr) Store(n uintptr)                  { y(); x.v.Store(n) }
func (x *Uintptr) Swap(n uintptr) uintptr           { y(); return x.v.Swap(n) }
func (x *Uintptr) CompareAndSwap(o, n uintptr) bool { y(); return x.v.CompareAndSwap(o, n) }
func (x *Uintptr) Add(d uintptr) uintptr            { y(); return x.v.Add(d) }
func (x *Uintptr) And(m uintptr) uintptr            { y(); return x.v.And(m) }
func (x *Uintptr) Or(m uintptr) uintptr             { y(); return x.v.Or(m) }

type Bool struct{ v atomic.Bool }

func (x *Bool) Load() bool                    { y(); return x.v.Load() }
func (x *Bool) Store(b bool)                  { y(); x.v.Store(b) }
func (x *Bool) Swap(b bool) bool              { y(); return x.v.Swap(b) }
func (x *Bool) CompareAndSwap(o, n bool) bool { y(); return x.v.CompareAndSwap(o, n) }

type Pointer[T any] struct{ v atomic.Pointer[T] }

func (x *Pointer[T]) Load() *T                    { y(); return x.v.Load() }
func (x *Pointer[T]) Store(p *T)                  { y(); x.v.Store(p) }
func (x *Pointer[T]) Swap(p *T) *T                { y(); return x.v.Swap(p) }
func (x *Pointer[T]) CompareAndSwap(o, n *T) bool { y(); return x.v.CompareAndSwap(o, n) }

type Value struct{ v atomic.Value }

func (x *Value) Load() any                    { y(); return x.v.Load() }
func (x *Value) Store(val any)                { y(); x.v.Store(val) }
func (x *Value) Swap(n any) any               { y(); return x.v.Swap(n) }
func (x *Value) CompareAndSwap(o, n any) bool { y(); return x.v.CompareAndSwap(o, n) }

// Function forms.
func AddInt32(a *int32, d int32) int32                 { y(); return atomic.AddInt32(a, d) }
func AddInt64(a *int64, d int64) int64                 { y(); return atomic.AddInt64(a, d) }
func AddUint32(a *uint32, d uint32) uint32             { y(); return atomic.AddUint32(a, d) }
func AddUint64(a *uint64, d uint64) uint64             { y(); return atomic.AddUint64(a, d) }
func AddUintptr(a *uintptr, d uintptr) uintptr         { y(); return atomic.AddUintptr(a, d) }
func LoadInt32(a *int32) int32                         { y(); return atomic.LoadInt32(a) }
func LoadInt64(a *int64) int64                         { y(); return atomic.LoadInt64(a) }
func LoadUint32(a *uint32) uint32                      { y(); return atomic.LoadUint32(a) }
func LoadUint64(a *uint64) uint64                      { y(); return atomic.LoadUint64(a) }
func LoadUintptr(a *uintptr) uintptr                   { y(); return atomic.LoadUintptr(a) }
func LoadPointer(a *unsafe.Pointer) unsafe.Pointer     { y(); return atomic.LoadPointer(a) }
func StoreInt32(a *int32, v int32)                     { y(); atomic.StoreInt32(a, v) }
func StoreInt64(a *int64, v int64)                     { y(); atomic.StoreInt64(a, v) }
func StoreUint32(a *uint32, v uint32)                  { y(); atomic.StoreUint32(a, v) }
func StoreUint64(a *uint64, v uint64)                  { y(); atomic.StoreUint64(a, v) }
func StoreUintptr(a *uintptr, v uintptr)               { y(); atomic.StoreUintptr(a, v) }
func StorePointer(a *unsafe.Pointer, v unsafe.Pointer) { y(); atomic.StorePointer(a, v) }
func SwapInt32(a *int32, v int32) int32                { y(); return atomic.SwapInt32(a, v) }
func SwapInt64(a *int64, v int64) int64                { y(); return atomic.SwapInt64(a, v) }
func SwapUint32(a *uint32, v uint32) uint32            { y(); return atomic.SwapUint32(a, v) }
func SwapUint64(a *uint64, v uint64) uint64            { y(); return atomic.SwapUint64(a, v) }
func SwapUintptr(a *uintptr, v uintptr) uintptr        { y(); return atomic.SwapUintptr(a, v) }
func SwapPointer(a *unsafe.Pointer, v unsafe.Pointer) unsafe.Pointer {
	y()
	return atomic.SwapPointer(a, v)
}
func CompareAndSwapInt32(a *int32, o, n int32) bool { y(); return atomic.CompareAndSwapInt32(a, o, n) }
func CompareAndSwapInt64(a *int64, o, n int64) bool { y(); return atomic.CompareAndSwapInt64(a, o, n) }
func CompareAndSwapUint32(a *uint32, o, n uint32) bool {
	y()
	return atomic.CompareAndSwapUint32(a, o, n)
}
func CompareAndSwapUint64(a *uint64, o, n uint64) bool {
	y()
	return atomic.CompareAndSwapUint64(a, o, n)
}
func CompareAndSwapUintptr(a *uintptr, o, n uintptr) bool {
	y()
	return atomic.CompareAndSwapUintptr(a, o, n)
}
func CompareAndSwapPointer(a *unsafe.Pointer, o, n unsafe.Pointer) bool {
	y()
	return atomic.CompareAndSwapPointer(a, o, n)
}
func AndInt32(a *int32, m int32) int32     { y(); return atomic.AndInt32(a, m) }
func AndUint32(a *uint32, m uint32) uint32 { y(); return atomic.AndUint32(a, m) }
func AndInt64(a *int64, m int64) int64     { y(); return atomic.AndInt64(a, m) }
func AndUint64(a *uint64, m uint64) uint64 { y(); return atomic.AndUint64(a, m) }
func OrInt32(a *int32, m int32) int32      { y(); return atomic.OrInt32(a, m) }
func OrUint32(a *uint32, m uint32) uint32  { y(); return atomic.OrUint32(a, m) }
func OrInt64(a *int64, m int64) int64      { y(); return atomic.OrInt64(a, m) }
func OrUint64(a *uint64, m uint64) uint64  { y(); return atomic.OrUint64(a, m) }
