// Package rewrite produces the check-time overlay of the library (DESIGN.md 2.2):
// sync / sync/atomic imports are substituted by simulator-aware packages, go
// statements become simrt.Go, channel operations get yield points and selects
// are determinised. It is purely syntactic (go/parser, go/ast, go/printer).
package rewrite

import (
	"bytes"
	"fmt"
	"go/ast"
	"go/parser"
	"go/printer"
	"go/token"
	"os"
	"path/filepath"
	"reflect"
	"sort"
	"strconv"
	"strings"
)

// Stats describes what the rewriter did; it ends up in the evidence files.
type Stats struct {
	Files                 int      `json:"files"`
	GoStmts               int      `json:"go_stmts"`
	Selects               int      `json:"selects_determinised"`
	SelectsTrivial        int      `json:"selects_single_case_default"`
	UndeterminisedSelects int      `json:"undeterminised_selects"`
	Recvs                 int      `json:"chan_recvs"`
	Sends                 int      `json:"chan_sends"`
	Closes                int      `json:"chan_closes"`
	AfterFuncs            int      `json:"afterfunc_callbacks_wrapped"`
	MapRanges             int      `json:"map_ranges_ordered"`
	SyncImports           int      `json:"sync_imports"`
	AtomicImports         int      `json:"atomic_imports"`
	Notes                 []string `json:"notes,omitempty"`
}

const (
	simrtPath   = "verif/simrt"
	simsyncPath = "verif/simsync"
	simatomPath = "verif/simatomic"
)

// Dir rewrites every non-test Go file of the package in srcDir into outDir and
// returns the overlay map (source path -> rewritten path).
func Dir(srcDir, outDir string) (map[string]string, *Stats, error) {
	ents, err := os.ReadDir(srcDir)
	if err != nil {
		return nil, nil, err
	}
	st := &Stats{}
	overlay := map[string]string{}
	var names []string
	for _, e := range ents {
		n := e.Name()
		if e.IsDir() || !strings.HasSuffix(n, ".go") || strings.HasSuffix(n, "_test.go") {
			continue
		}
		names = append(names, n)
	}
	sort.Strings(names)
	// which struct fields of the package are maps (decided by syntax: a field
	// name declared with a map type and nowhere with another type)
	mapFields = map[string]bool{}
	other := map[string]bool{}
	for _, n := range names {
		f, err := parser.ParseFile(token.NewFileSet(), filepath.Join(srcDir, n), nil, 0)
		if err != nil {
			return nil, nil, fmt.Errorf("%s: %w", n, err)
		}
		ast.Inspect(f, func(nd ast.Node) bool {
			stt, ok := nd.(*ast.StructType)
			if !ok {
				return true
			}
			for _, fl := range stt.Fields.List {
				_, isMap := fl.Type.(*ast.MapType)
				for _, id := range fl.Names {
					if isMap {
						mapFields[id.Name] = true
					} else {
						other[id.Name] = true
					}
				}
			}
			return true
		})
	}
	for n := range other {
		delete(mapFields, n)
	}
	for _, n := range names {
		src := filepath.Join(srcDir, n)
		out, err := File(src, st)
		if err != nil {
			return nil, nil, fmt.Errorf("%s: %w", src, err)
		}
		dst := filepath.Join(outDir, n)
		if err := os.WriteFile(dst, out, 0o644); err != nil {
			return nil, nil, err
		}
		overlay[src] = dst
		st.Files++
	}
	return overlay, st, nil
}

// mapFields: names of struct fields of the package being rewritten that are
// maps (set by Dir).
var mapFields = map[string]bool{}

type rw struct {
	fset      *token.FileSet
	file      string
	st        *Stats
	protected map[ast.Node]bool
	usesSimrt bool
}

// File rewrites one source file.
func File(path string, st *Stats) ([]byte, error) {
	fset := token.NewFileSet()
	src, err := os.ReadFile(path)
	if err != nil {
		return nil, err
	}
	f, err := parser.ParseFile(fset, path, src, parser.ParseComments)
	if err != nil {
		return nil, err
	}
	// keep build constraints
	var header []string
	for _, cg := range f.Comments {
		if cg.Pos() >= f.Package {
			break
		}
		for _, c := range cg.List {
			if strings.HasPrefix(c.Text, "//go:build") || strings.HasPrefix(c.Text, "// +build") {
				header = append(header, c.Text)
			}
		}
	}
	f.Comments = nil
	f.Doc = nil
	stripDocs(f)

	r := &rw{fset: fset, file: filepath.Base(path), st: st, protected: map[ast.Node]bool{}}

	// imports
	for _, imp := range f.Imports {
		p, _ := strconv.Unquote(imp.Path.Value)
		switch p {
		case "sync":
			if imp.Name == nil {
				imp.Name = ast.NewIdent("sync")
			}
			imp.Path.Value = strconv.Quote(simsyncPath)
			st.SyncImports++
		case "sync/atomic":
			if imp.Name == nil {
				imp.Name = ast.NewIdent("atomic")
			}
			imp.Path.Value = strconv.Quote(simatomPath)
			st.AtomicImports++
		}
	}

	// pass A: statements (go, select)
	for _, d := range f.Decls {
		if fd, ok := d.(*ast.FuncDecl); ok && fd.Body != nil {
			r.block(fd.Body)
		} else {
			// function literals in package-level var initialisers
			r.funcLitsIn(d)
		}
	}
	// pass B: expressions (receive, send, close)
	r.exprs(f)

	if r.usesSimrt {
		addImport(f, "simrt", simrtPath)
	}

	var buf bytes.Buffer
	for _, h := range header {
		buf.WriteString(h + "\n")
	}
	if len(header) > 0 {
		buf.WriteString("\n")
	}
	buf.WriteString("// Code generated by verif/rewrite from " + filepath.Base(path) + "; DO NOT EDIT.\n\n")
	cfg := printer.Config{Mode: printer.UseSpaces | printer.TabIndent, Tabwidth: 8}
	if err := cfg.Fprint(&buf, fset, f); err != nil {
		return nil, err
	}
	// sanity: must parse
	if _, err := parser.ParseFile(token.NewFileSet(), path, buf.Bytes(), 0); err != nil {
		return nil, fmt.Errorf("rewritten file does not parse: %w", err)
	}
	return buf.Bytes(), nil
}

func stripDocs(f *ast.File) {
	ast.Inspect(f, func(n ast.Node) bool {
		switch n := n.(type) {
		case *ast.FuncDecl:
			n.Doc = nil
		case *ast.GenDecl:
			n.Doc = nil
		case *ast.TypeSpec:
			n.Doc, n.Comment = nil, nil
		case *ast.ValueSpec:
			n.Doc, n.Comment = nil, nil
		case *ast.Field:
			n.Doc, n.Comment = nil, nil
		case *ast.ImportSpec:
			n.Doc, n.Comment = nil, nil
		}
		return true
	})
}

func addImport(f *ast.File, name, path string) {
	spec := &ast.ImportSpec{Name: ast.NewIdent(name), Path: &ast.BasicLit{Kind: token.STRING, Value: strconv.Quote(path)}}
	decl := &ast.GenDecl{Tok: token.IMPORT, Specs: []ast.Spec{spec}}
	f.Decls = append([]ast.Decl{decl}, f.Decls...)
	f.Imports = append(f.Imports, spec)
}

func (r *rw) site(p token.Pos) string {
	pos := r.fset.Position(p)
	return fmt.Sprintf("%s:%d", r.file, pos.Line)
}

func sel(pkg, name string) ast.Expr {
	return &ast.SelectorExpr{X: ast.NewIdent(pkg), Sel: ast.NewIdent(name)}
}

func call(fun ast.Expr, args ...ast.Expr) *ast.CallExpr {
	return &ast.CallExpr{Fun: fun, Args: args}
}

func strLit(s string) ast.Expr { return &ast.BasicLit{Kind: token.STRING, Value: strconv.Quote(s)} }
func intLit(i int) ast.Expr    { return &ast.BasicLit{Kind: token.INT, Value: strconv.Itoa(i)} }

func (r *rw) yield(class string) ast.Stmt {
	r.usesSimrt = true
	return &ast.ExprStmt{X: call(sel("simrt", "Yield"), sel("simrt", class))}
}

func define(name string, v ast.Expr) ast.Stmt {
	return &ast.AssignStmt{Lhs: []ast.Expr{ast.NewIdent(name)}, Tok: token.DEFINE, Rhs: []ast.Expr{v}}
}

func assign(name string, v ast.Expr) ast.Stmt {
	return &ast.AssignStmt{Lhs: []ast.Expr{ast.NewIdent(name)}, Tok: token.ASSIGN, Rhs: []ast.Expr{v}}
}

// funcLitsIn applies pass A to function literals inside a non-function decl.
func (r *rw) funcLitsIn(n ast.Node) {
	ast.Inspect(n, func(n ast.Node) bool {
		if fl, ok := n.(*ast.FuncLit); ok {
			r.block(fl.Body)
			return false
		}
		return true
	})
}

// block rewrites the statement list of b in place (pass A).
func (r *rw) block(b *ast.BlockStmt) {
	if b == nil {
		return
	}
	b.List = r.stmts(b.List)
}

func (r *rw) stmts(list []ast.Stmt) []ast.Stmt {
	out := make([]ast.Stmt, 0, len(list))
	for _, s := range list {
		out = append(out, r.stmt(s))
	}
	return out
}

// stmt rewrites one statement (recursively) and returns its replacement.
func (r *rw) stmt(s ast.Stmt) ast.Stmt {
	switch s := s.(type) {
	case *ast.GoStmt:
		return r.goStmt(s)
	case *ast.SelectStmt:
		return r.selectStmt(s, false)
	case *ast.LabeledStmt:
		if ss, ok := s.Stmt.(*ast.SelectStmt); ok {
			s.Stmt = r.selectStmt(ss, true)
			return s
		}
		s.Stmt = r.stmt(s.Stmt)
		return s
	case *ast.BlockStmt:
		r.block(s)
		return s
	case *ast.IfStmt:
		r.lits(s.Init)
		r.lits(s.Cond)
		r.block(s.Body)
		if s.Else != nil {
			s.Else = r.stmt(s.Else)
		}
		return s
	case *ast.ForStmt:
		r.lits(s.Init)
		r.lits(s.Cond)
		r.lits(s.Post)
		r.block(s.Body)
		return s
	case *ast.RangeStmt:
		r.lits(s.X)
		r.block(s.Body)
		r.orderMapRange(s)
		return s
	case *ast.SwitchStmt:
		r.lits(s.Init)
		r.lits(s.Tag)
		for _, c := range s.Body.List {
			cc := c.(*ast.CaseClause)
			for _, e := range cc.List {
				r.lits(e)
			}
			cc.Body = r.stmts(cc.Body)
		}
		return s
	case *ast.TypeSwitchStmt:
		r.lits(s.Init)
		r.lits(s.Assign)
		for _, c := range s.Body.List {
			cc := c.(*ast.CaseClause)
			cc.Body = r.stmts(cc.Body)
		}
		return s
	default:
		r.lits(s)
		return s
	}
}

// lits applies pass A to function literals nested in an expression / simple statement.
func (r *rw) lits(n ast.Node) {
	if n == nil || reflect.ValueOf(n).IsNil() {
		return
	}
	r.funcLitsIn(n)
}

func isSimpleArg(e ast.Expr) bool {
	switch e := e.(type) {
	case *ast.BasicLit:
		return true
	case *ast.Ident:
		return e.Name == "nil" || e.Name == "true" || e.Name == "false"
	}
	return false
}

var builtins = map[string]bool{"close": true, "panic": true, "print": true, "println": true, "delete": true, "clear": true}

func (r *rw) goStmt(s *ast.GoStmt) ast.Stmt {
	r.st.GoStmts++
	r.usesSimrt = true
	site := strLit(r.site(s.Pos()))
	c := s.Call
	// go func(){...}()  ->  simrt.Go(site, func(){...})
	if fl, ok := c.Fun.(*ast.FuncLit); ok && len(c.Args) == 0 {
		r.block(fl.Body)
		return &ast.ExprStmt{X: call(sel("simrt", "Go"), site, fl)}
	}
	r.lits(c)
	var pre []ast.Stmt
	fun := c.Fun
	if id, ok := c.Fun.(*ast.Ident); ok && builtins[id.Name] {
		// builtin: cannot be captured as a value
	} else if _, ok := c.Fun.(*ast.FuncLit); !ok {
		pre = append(pre, define("__f", c.Fun))
		fun = ast.NewIdent("__f")
	}
	args := make([]ast.Expr, len(c.Args))
	for i, a := range c.Args {
		if isSimpleArg(a) {
			args[i] = a
			continue
		}
		n := "__a" + strconv.Itoa(i)
		pre = append(pre, define(n, a))
		args[i] = ast.NewIdent(n)
	}
	inner := &ast.CallExpr{Fun: fun, Args: args, Ellipsis: c.Ellipsis}
	if c.Ellipsis != token.NoPos {
		inner.Ellipsis = 1
	}
	lit := &ast.FuncLit{Type: &ast.FuncType{Params: &ast.FieldList{}}, Body: &ast.BlockStmt{List: []ast.Stmt{&ast.ExprStmt{X: inner}}}}
	pre = append(pre, &ast.ExprStmt{X: call(sel("simrt", "Go"), site, lit)})
	return &ast.BlockStmt{List: pre}
}

// commInfo describes one communication clause without bindings.
type commInfo struct {
	isSend bool
	ch     ast.Expr
	val    ast.Expr
}

func (r *rw) analyse(cc *ast.CommClause) (commInfo, bool) {
	switch c := cc.Comm.(type) {
	case *ast.ExprStmt:
		if u, ok := c.X.(*ast.UnaryExpr); ok && u.Op == token.ARROW {
			return commInfo{ch: u.X}, true
		}
	case *ast.SendStmt:
		return commInfo{isSend: true, ch: c.Chan, val: c.Value}, true
	}
	return commInfo{}, false
}

func (r *rw) selectStmt(s *ast.SelectStmt, labeled bool) ast.Stmt {
	var clauses []*ast.CommClause
	var def *ast.CommClause
	for _, c := range s.Body.List {
		cc := c.(*ast.CommClause)
		cc.Body = r.stmts(cc.Body)
		if cc.Comm == nil {
			def = cc
		} else {
			clauses = append(clauses, cc)
			r.protect(cc.Comm)
			r.lits(cc.Comm)
		}
	}
	pre := r.yield("ClassChan")
	// single comm case with default: no choice, no blocking
	if def != nil && len(clauses) <= 1 {
		r.st.SelectsTrivial++
		if labeled {
			return s
		}
		return &ast.BlockStmt{List: []ast.Stmt{pre, s}}
	}
	infos := make([]commInfo, len(clauses))
	ok := !labeled && len(clauses) > 0
	for i, cc := range clauses {
		ci, good := r.analyse(cc)
		if !good {
			ok = false
		}
		infos[i] = ci
	}
	if !ok || len(clauses) == 1 {
		// blocking single-case select, or something we do not transform:
		// leave as is, but make every woken clause yield first.
		if len(clauses) > 1 || labeled {
			r.st.UndeterminisedSelects++
			r.st.Notes = append(r.st.Notes, "select left as is at "+r.site(s.Pos()))
		} else {
			r.st.SelectsTrivial++
		}
		for _, cc := range clauses {
			cc.Body = append([]ast.Stmt{r.yield("ClassWake")}, cc.Body...)
		}
		if labeled {
			return s
		}
		return &ast.BlockStmt{List: []ast.Stmt{pre, s}}
	}
	r.st.Selects++
	n := len(clauses)
	var out []ast.Stmt
	out = append(out, pre)
	mkComm := func(i int) ast.Stmt {
		var st ast.Stmt
		if infos[i].isSend {
			st = &ast.SendStmt{Chan: ast.NewIdent("__c" + strconv.Itoa(i)), Value: ast.NewIdent("__v" + strconv.Itoa(i))}
		} else {
			st = &ast.ExprStmt{X: &ast.UnaryExpr{Op: token.ARROW, X: ast.NewIdent("__c" + strconv.Itoa(i))}}
		}
		r.protect(st)
		return st
	}
	for i, ci := range infos {
		out = append(out, define("__c"+strconv.Itoa(i), ci.ch))
		if ci.isSend {
			out = append(out, define("__v"+strconv.Itoa(i), ci.val))
		}
	}
	out = append(out, define("__sel", &ast.UnaryExpr{Op: token.SUB, X: intLit(1)}))
	// var __ord [n]int
	out = append(out, &ast.DeclStmt{Decl: &ast.GenDecl{Tok: token.VAR, Specs: []ast.Spec{&ast.ValueSpec{
		Names: []*ast.Ident{ast.NewIdent("__ord")},
		Type:  &ast.ArrayType{Len: intLit(n), Elt: ast.NewIdent("int")},
	}}}})
	out = append(out, &ast.ExprStmt{X: call(sel("simrt", "SelectOrder"), &ast.SliceExpr{X: ast.NewIdent("__ord")})})
	// polling loop
	var pollCases []ast.Stmt
	for i := range infos {
		poll := &ast.SelectStmt{Body: &ast.BlockStmt{List: []ast.Stmt{
			&ast.CommClause{Comm: mkComm(i), Body: []ast.Stmt{assign("__sel", intLit(i))}},
			&ast.CommClause{},
		}}}
		pollCases = append(pollCases, &ast.CaseClause{List: []ast.Expr{intLit(i)}, Body: []ast.Stmt{poll}})
	}
	loopBody := []ast.Stmt{
		&ast.SwitchStmt{Tag: ast.NewIdent("__i"), Body: &ast.BlockStmt{List: pollCases}},
		&ast.IfStmt{Cond: &ast.BinaryExpr{X: ast.NewIdent("__sel"), Op: token.GEQ, Y: intLit(0)}, Body: &ast.BlockStmt{List: []ast.Stmt{&ast.BranchStmt{Tok: token.BREAK}}}},
	}
	out = append(out, &ast.RangeStmt{Key: ast.NewIdent("_"), Value: ast.NewIdent("__i"), Tok: token.DEFINE, X: ast.NewIdent("__ord"), Body: &ast.BlockStmt{List: loopBody}})
	if def == nil {
		var blockCases []ast.Stmt
		for i := range infos {
			blockCases = append(blockCases, &ast.CommClause{Comm: mkComm(i), Body: []ast.Stmt{assign("__sel", intLit(i))}})
		}
		out = append(out, &ast.IfStmt{
			Cond: &ast.BinaryExpr{X: ast.NewIdent("__sel"), Op: token.LSS, Y: intLit(0)},
			Body: &ast.BlockStmt{List: []ast.Stmt{
				&ast.SelectStmt{Body: &ast.BlockStmt{List: blockCases}},
				r.yield("ClassWake"),
			}},
		})
	}
	var bodies []ast.Stmt
	for i, cc := range clauses {
		bodies = append(bodies, &ast.CaseClause{List: []ast.Expr{intLit(i)}, Body: cc.Body})
	}
	if def != nil {
		bodies = append(bodies, &ast.CaseClause{Body: def.Body})
	} else {
		// keeps the construct a terminating statement when every clause terminates
		bodies = append(bodies, &ast.CaseClause{Body: []ast.Stmt{&ast.ExprStmt{X: call(ast.NewIdent("panic"), strLit("simrewrite: unreachable"))}}})
	}
	out = append(out, &ast.SwitchStmt{Tag: ast.NewIdent("__sel"), Body: &ast.BlockStmt{List: bodies}})
	return &ast.BlockStmt{List: out}
}

func (r *rw) protect(n ast.Node) {
	r.protected[n] = true
	ast.Inspect(n, func(m ast.Node) bool {
		if m == nil {
			return false
		}
		switch m := m.(type) {
		case *ast.FuncLit:
			return false
		case *ast.UnaryExpr:
			if m.Op == token.ARROW {
				r.protected[m] = true
			}
		}
		return true
	})
}

// ---- pass B: expression-level rewriting --------------------------------

var (
	exprType = reflect.TypeOf((*ast.Expr)(nil)).Elem()
	stmtType = reflect.TypeOf((*ast.Stmt)(nil)).Elem()
	nodeType = reflect.TypeOf((*ast.Node)(nil)).Elem()
)

// exprs walks the whole file post-order, replacing channel receives, sends and
// closes that are not part of a select communication clause.
func (r *rw) exprs(root ast.Node) {
	r.walk(reflect.ValueOf(root))
}

func (r *rw) walk(v reflect.Value) {
	switch v.Kind() {
	case reflect.Interface, reflect.Ptr:
		if v.IsNil() {
			return
		}
		if v.Kind() == reflect.Interface {
			r.walk(v.Elem())
			return
		}
		if n, ok := v.Interface().(ast.Node); ok && r.protected[n] {
			// do not touch the head of a communication clause, but still
			// descend into its sub-expressions (channel / value expressions)
			if _, isStmt := n.(ast.Stmt); isStmt {
				r.walkProtectedStmt(n)
				return
			}
		}
		if _, ok := v.Interface().(*ast.Object); ok {
			return
		}
		if _, ok := v.Interface().(*ast.Scope); ok {
			return
		}
		r.walk(v.Elem())
	case reflect.Struct:
		for i := 0; i < v.NumField(); i++ {
			f := v.Field(i)
			if !f.CanSet() {
				continue
			}
			r.walkField(f)
		}
	case reflect.Slice:
		for i := 0; i < v.Len(); i++ {
			r.walkField(v.Index(i))
		}
	}
}

func (r *rw) walkProtectedStmt(n ast.Node) {
	switch s := n.(type) {
	case *ast.ExprStmt:
		if u, ok := s.X.(*ast.UnaryExpr); ok {
			f := reflect.ValueOf(u).Elem().FieldByName("X")
			r.walkField(f)
		}
	case *ast.SendStmt:
		r.walkField(reflect.ValueOf(s).Elem().FieldByName("Chan"))
		r.walkField(reflect.ValueOf(s).Elem().FieldByName("Value"))
	case *ast.AssignStmt:
		for i := range s.Rhs {
			if u, ok := s.Rhs[i].(*ast.UnaryExpr); ok {
				r.walkField(reflect.ValueOf(u).Elem().FieldByName("X"))
			}
		}
	}
}

func (r *rw) walkField(f reflect.Value) {
	// children first
	r.walk(f)
	if f.Kind() != reflect.Interface || f.IsNil() {
		return
	}
	switch {
	case f.Type() == exprType:
		e := f.Interface().(ast.Expr)
		if ne := r.replaceExpr(e); ne != nil {
			f.Set(reflect.ValueOf(ne))
		}
	case f.Type() == stmtType:
		s := f.Interface().(ast.Stmt)
		if ns := r.replaceStmt(s); ns != nil {
			f.Set(reflect.ValueOf(ns))
		}
	}
}

// orderMapRange turns "for k, v := range x.f" over a map-typed struct field
// into an iteration over simrt.MapKeys(x.f): Go randomises the order of map
// iteration from a source the simulator does not own, and when the loop body
// contains scheduling points (ReverseTunnelServer.Stop closing its streams)
// the order decides the schedule. MapKeys orders the keys canonically and then
// lets the chooser pick the rotation, so the order is explored and replayable.
func (r *rw) orderMapRange(s *ast.RangeStmt) {
	se, ok := s.X.(*ast.SelectorExpr)
	if !ok || !mapFields[se.Sel.Name] || s.Key == nil || s.Tok != token.DEFINE {
		return
	}
	if _, ok := se.X.(*ast.Ident); !ok {
		return
	}
	copyX := func() ast.Expr {
		return &ast.SelectorExpr{X: ast.NewIdent(se.X.(*ast.Ident).Name), Sel: ast.NewIdent(se.Sel.Name)}
	}
	key := "__mk_k"
	if id, ok := s.Key.(*ast.Ident); ok && id.Name != "_" {
		key = id.Name
	} else if !ok {
		return
	}
	val := "_"
	if s.Value != nil {
		id, ok := s.Value.(*ast.Ident)
		if !ok {
			return
		}
		val = id.Name
	}
	fetch := &ast.AssignStmt{Lhs: []ast.Expr{ast.NewIdent(val), ast.NewIdent("__mk_ok")}, Tok: token.DEFINE,
		Rhs: []ast.Expr{&ast.IndexExpr{X: copyX(), Index: ast.NewIdent(key)}}}
	skip := &ast.IfStmt{Cond: &ast.UnaryExpr{Op: token.NOT, X: ast.NewIdent("__mk_ok")},
		Body: &ast.BlockStmt{List: []ast.Stmt{&ast.BranchStmt{Tok: token.CONTINUE}}}}
	s.Body.List = append([]ast.Stmt{fetch, skip}, s.Body.List...)
	s.Key = ast.NewIdent("_")
	s.Value = ast.NewIdent(key)
	s.X = call(sel("simrt", "MapKeys"), copyX())
	r.st.MapRanges++
	r.usesSimrt = true
}

func isSimrtWrap(c *ast.CallExpr) bool {
	se, ok := c.Fun.(*ast.SelectorExpr)
	if !ok || se.Sel.Name != "Wrap" {
		return false
	}
	id, ok := se.X.(*ast.Ident)
	return ok && id.Name == "simrt"
}

func (r *rw) replaceExpr(e ast.Expr) ast.Expr {
	switch e := e.(type) {
	case *ast.UnaryExpr:
		if e.Op == token.ARROW && !r.protected[e] {
			r.st.Recvs++
			r.usesSimrt = true
			return call(sel("simrt", "Recv"), e.X)
		}
	case *ast.CallExpr:
		// callbacks that a dependency starts on a goroutine of its own
		if se, ok := e.Fun.(*ast.SelectorExpr); ok && se.Sel.Name == "AfterFunc" && len(e.Args) == 2 {
			if id, ok := se.X.(*ast.Ident); ok && (id.Name == "context" || id.Name == "time") {
				if c, ok := e.Args[1].(*ast.CallExpr); !ok || !isSimrtWrap(c) {
					r.st.AfterFuncs++
					r.usesSimrt = true
					e.Args[1] = call(sel("simrt", "Wrap"), strLit(r.site(e.Pos())), e.Args[1])
				}
			}
		}
		if id, ok := e.Fun.(*ast.Ident); ok && id.Name == "close" && len(e.Args) == 1 {
			r.st.Closes++
			r.usesSimrt = true
			return call(sel("simrt", "Close"), e.Args[0])
		}
	}
	return nil
}

func (r *rw) replaceStmt(s ast.Stmt) ast.Stmt {
	if r.protected[s] {
		return nil
	}
	switch s := s.(type) {
	case *ast.SendStmt:
		r.st.Sends++
		r.usesSimrt = true
		return &ast.ExprStmt{X: call(sel("simrt", "Send"), s.Chan, s.Value)}
	case *ast.AssignStmt:
		// v, ok := <-ch   (the receive has already been turned into simrt.Recv(ch))
		if len(s.Lhs) == 2 && len(s.Rhs) == 1 {
			if c, ok := s.Rhs[0].(*ast.CallExpr); ok {
				if se, ok := c.Fun.(*ast.SelectorExpr); ok {
					if x, ok := se.X.(*ast.Ident); ok && x.Name == "simrt" && se.Sel.Name == "Recv" {
						se.Sel = ast.NewIdent("Recv2")
					}
				}
			}
		}
	case *ast.DeclStmt:
		if gd, ok := s.Decl.(*ast.GenDecl); ok && gd.Tok == token.VAR {
			for _, sp := range gd.Specs {
				vs := sp.(*ast.ValueSpec)
				if len(vs.Names) == 2 && len(vs.Values) == 1 {
					if c, ok := vs.Values[0].(*ast.CallExpr); ok {
						if se, ok := c.Fun.(*ast.SelectorExpr); ok {
							if x, ok := se.X.(*ast.Ident); ok && x.Name == "simrt" && se.Sel.Name == "Recv" {
								se.Sel = ast.NewIdent("Recv2")
							}
						}
					}
				}
			}
		}
	}
	return nil
}
