// Package simsync is an API-compatible stand-in for package sync. The rewriter
// substitutes it for "sync" in the overlay copy of the library. Every lock
// wraps the REAL primitive (so the happens-before edges the race detector sees
// are the production ones); acquisition is a scheduling point and contention
// parks the goroutine in the simulator instead of in the Go runtime. With no
// simulator installed everything degenerates to the real primitive.
package simsync

import (
	"sync"
	"sync/atomic"
	"unsafe"

	"verif/simrt"
)

type (
	Locker = sync.Locker
	Cond   = sync.Cond
	Map    = sync.Map
	Pool   = sync.Pool
)

func NewCond(l Locker) *Cond { return sync.NewCond(l) }

// Mutex wraps a real sync.Mutex.
type Mutex struct {
	m sync.Mutex
}

// While a finished run is being torn down (simrt.Poisoned) the remaining
// goroutines are released one at a time only to run their deferred calls and
// exit; locks are then no-ops (a goroutine poisoned while parked inside Lock
// would otherwise "unlock an unlocked mutex" in its deferred Unlock).

func (m *Mutex) Lock() {
	if simrt.Poisoned() {
		return
	}
	if !simrt.Active() {
		m.m.Lock()
		return
	}
	simrt.Yield(simrt.ClassLock)
	for !m.m.TryLock() {
		simrt.BlockOn(unsafe.Pointer(m))
	}
}

func (m *Mutex) TryLock() bool {
	simrt.Yield(simrt.ClassLock)
	return m.m.TryLock()
}

func (m *Mutex) Unlock() {
	if simrt.Poisoned() {
		return
	}
	m.m.Unlock()
	simrt.Wake(unsafe.Pointer(m))
}

// RWMutex wraps a real sync.RWMutex.
type RWMutex struct {
	m sync.RWMutex
}

func (m *RWMutex) Lock() {
	if simrt.Poisoned() {
		return
	}
	if !simrt.Active() {
		m.m.Lock()
		return
	}
	simrt.Yield(simrt.ClassLock)
	for !m.m.TryLock() {
		simrt.BlockOn(unsafe.Pointer(m))
	}
}

func (m *RWMutex) TryLock() bool {
	simrt.Yield(simrt.ClassLock)
	return m.m.TryLock()
}

func (m *RWMutex) Unlock() {
	if simrt.Poisoned() {
		return
	}
	m.m.Unlock()
	simrt.Wake(unsafe.Pointer(m))
}

func (m *RWMutex) RLock() {
	if simrt.Poisoned() {
		return
	}
	if !simrt.Active() {
		m.m.RLock()
		return
	}
	simrt.Yield(simrt.ClassLock)
	for !m.m.TryRLock() {
		simrt.BlockOn(unsafe.Pointer(m))
	}
}

func (m *RWMutex) TryRLock() bool {
	simrt.Yield(simrt.ClassLock)
	return m.m.TryRLock()
}

func (m *RWMutex) RUnlock() {
	if simrt.Poisoned() {
		return
	}
	m.m.RUnlock()
	simrt.Wake(unsafe.Pointer(m))
}

type rlocker RWMutex

func (r *rlocker) Lock()   { (*RWMutex)(r).RLock() }
func (r *rlocker) Unlock() { (*RWMutex)(r).RUnlock() }

func (m *RWMutex) RLocker() Locker { return (*rlocker)(m) }

// Once is re-implemented on the simulated mutex: a real sync.Once would block
// non-durably on its internal mutex while the first caller is parked inside f.
type Once struct {
	done atomic.Uint32
	m    Mutex
}

func (o *Once) Do(f func()) {
	simrt.Yield(simrt.ClassAtomic)
	if o.done.Load() == 1 {
		return
	}
	o.m.Lock()
	defer o.m.Unlock()
	if o.done.Load() == 0 {
		defer o.done.Store(1)
		f()
	}
}

func OnceFunc(f func()) func() {
	var o Once
	return func() { o.Do(f) }
}

func OnceValue[T any](f func() T) func() T {
	var o Once
	var v T
	return func() T {
		o.Do(func() { v = f() })
		return v
	}
}

func OnceValues[T1, T2 any](f func() (T1, T2)) func() (T1, T2) {
	var o Once
	var v1 T1
	var v2 T2
	return func() (T1, T2) {
		o.Do(func() { v1, v2 = f() })
		return v1, v2
	}
}

// WaitGroup wraps the real one; Wait blocks in the Go runtime (durably, in
// synctest terms) and yields when it wakes so that the woken goroutine and its
// waker never run library code concurrently.
type WaitGroup struct {
	wg sync.WaitGroup
}

func (w *WaitGroup) Add(n int) {
	if simrt.Poisoned() {
		return
	}
	simrt.Yield(simrt.ClassAtomic)
	w.wg.Add(n)
}

func (w *WaitGroup) Done() {
	if simrt.Poisoned() {
		return
	}
	simrt.Yield(simrt.ClassAtomic)
	w.wg.Done()
}

func (w *WaitGroup) Wait() {
	if simrt.Poisoned() {
		return
	}
	simrt.Yield(simrt.ClassChan)
	w.wg.Wait()
	simrt.Yield(simrt.ClassWake)
}

func (w *WaitGroup) Go(f func()) {
	w.Add(1)
	simrt.Go("WaitGroup.Go", func() {
		defer w.Done()
		f()
	})
}
