package main

import (
	"flag"
	"fmt"
	"regexp"
	"sort"
	"strings"
	"sync"
	"time"
)

// selftestDeterminism: every family, many seeds, each executed in several fresh
// processes at GOMAXPROCS 1, 4 and 16 with different batch compositions; the
// full schedule logs and histories (not just outcomes) must be identical.
func selftestDeterminism(args []string) int {
	fs := flag.NewFlagSet("determinism", flag.ExitOnError)
	seeds := fs.Int("seeds", 30, "seeds per family")
	fams := fs.String("families", "", "comma-separated families (default: all used by the properties)")
	race := fs.Bool("race", false, "use the -race build")
	fs.Parse(args)
	b := buildSim(*race)
	defer b.cleanup()
	famSet := map[string]map[string]int{}
	for _, ps := range props {
		for _, f := range ps.Families {
			if *race != f.Race && *race {
				continue
			}
			key := f.Family + fmt.Sprint(f.Param)
			if famSet[key] == nil {
				famSet[key] = f.Param
				_ = key
			}
		}
	}
	type famP struct {
		fam   string
		param map[string]int
	}
	var list []famP
	seenF := map[string]bool{}
	for _, ps := range props {
		for _, f := range ps.Families {
			key := f.Family + fmt.Sprint(f.Param)
			if *race && !f.Race {
				continue // only the families that checks run under the race detector
			}
			if seenF[key] {
				continue
			}
			seenF[key] = true
			if *fams != "" && !strings.Contains(","+*fams+",", ","+f.Family+",") {
				continue
			}
			p := map[string]int{}
			for k, v := range f.Param {
				p[k] = v
			}
			if f.Enum {
				p["k"] = 7
				p["cause"] = 1
			}
			if p["volume"] == 1 {
				continue // same code path as flow; too long for a log comparison
			}
			list = append(list, famP{f.Family, p})
		}
	}
	sort.Slice(list, func(i, j int) bool {
		return list[i].fam+fmt.Sprint(list[i].param) < list[j].fam+fmt.Sprint(list[j].param)
	})
	seed := envSeed()
	var specs []RunSpec
	for _, f := range list {
		for i := 0; i < *seeds; i++ {
			specs = append(specs, RunSpec{Family: f.fam, Seed: seed + 7777, Run: uint64(i), Tier: "quick", KeepLog: true, Param: f.param})
		}
	}
	type res struct {
		digest string
		log    string
		hist   string
		viol   string
	}
	procs := []int{1, 4, 16, 1, 16, 4}
	results := make([]map[string]res, len(procs))
	var wg sync.WaitGroup
	var mu sync.Mutex
	infra := 0
	sem := make(chan struct{}, 16)
	for pi, gmp := range procs {
		results[pi] = map[string]res{}
		// different batch compositions per process set: rotate and vary chunk size
		rot := (pi * 13) % len(specs)
		sp := append(append([]RunSpec{}, specs[rot:]...), specs[:rot]...)
		chunk := 5 + pi*3
		for i := 0; i < len(sp); i += chunk {
			j := i + chunk
			if j > len(sp) {
				j = len(sp)
			}
			part := sp[i:j]
			wg.Add(1)
			sem <- struct{}{}
			go func(pi, gmp int, part []RunSpec) {
				defer wg.Done()
				defer func() { <-sem }()
				outs, _, _, stderr, err := runJob(b, &Job{Runs: part}, gmp, 20*time.Minute)
				mu.Lock()
				defer mu.Unlock()
				if err != nil {
					infra++
					fmt.Println("worker error:", err, tail(stderr, 800))
				}
				for _, o := range outs {
					k := fmt.Sprintf("%s%v/%d", o.Spec.Family, o.Spec.Param, o.Spec.Run)
					var vs []string
					for _, v := range o.Violations {
						vs = append(vs, v.Property+":"+v.Kind)
					}
					// Go randomises map iteration; the library names "the" offending
					// metadata key in an error message while ranging over a map. That
					// choice is not a scheduling decision and changes no behaviour, so
					// the key name inside that message is masked before comparing.
					hist := mdKeyRe.ReplaceAllString(strings.Join(o.History, "\n"), `key "<k>"`)
					results[pi][k] = res{digest: o.Digest + "/" + o.Infra, log: strings.Join(o.SchedLog, "\n"), hist: hist, viol: strings.Join(vs, ",")}
				}
			}(pi, gmp, part)
		}
	}
	wg.Wait()
	bad := 0
	keys := make([]string, 0, len(results[0]))
	for k := range results[0] {
		keys = append(keys, k)
	}
	sort.Strings(keys)
	for _, k := range keys {
		r0 := results[0][k]
		for pi := 1; pi < len(procs); pi++ {
			r, ok := results[pi][k]
			if !ok {
				fmt.Printf("DIVERGENCE %s: missing in process set %d\n", k, pi)
				bad++
				continue
			}
			if r.digest != r0.digest || r.log != r0.log || r.hist != r0.hist || r.viol != r0.viol {
				bad++
				fmt.Printf("DIVERGENCE %s: GOMAXPROCS=%d vs %d: digest %s vs %s; log equal=%v history equal=%v violations %q vs %q\n",
					k, procs[0], procs[pi], r0.digest, r.digest, r.log == r0.log, r.hist == r0.hist, r0.viol, r.viol)
				firstDiff(r0.log, r.log)
				firstDiff(r0.hist, r.hist)
			}
		}
	}
	fmt.Printf("determinism: %d specs x %d process sets (GOMAXPROCS %v), %d divergences, %d worker errors\n", len(keys), len(procs), procs, bad, infra)
	if bad > 0 || infra > 0 || len(keys) == 0 {
		return 2
	}
	return 0
}

func firstDiff(a, b string) {
	la, lb := strings.Split(a, "\n"), strings.Split(b, "\n")
	for i := 0; i < len(la) && i < len(lb); i++ {
		if la[i] != lb[i] {
			fmt.Printf("  first difference at line %d:\n    %s\n    %s\n", i, la[i], lb[i])
			return
		}
	}
	if len(la) != len(lb) {
		fmt.Printf("  lengths differ: %d vs %d\n", len(la), len(lb))
	}
}

var mdKeyRe = regexp.MustCompile(`key \\?"[^"\\]*\\?"`)
