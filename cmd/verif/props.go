package main

import (
	"fmt"
	"sync"
	"time"
)

type famPlan struct {
	Family string
	Weight int
	Param  map[string]int
	Race   bool
	// Enum: fault enumeration. A baseline run (param k=-1) reports its number
	// of frames N; then one run per (cause, k) for k in 1..N (quick: a
	// stratified sample of EnumQuick points) replays the same seed with the
	// fault injected at frame k.
	Batch      int // runs per worker job (0 = default)
	Enum       bool
	EnumCauses int
	EnumQuick  int
}

type propSpec struct {
	Level          string
	Rule           string
	Assumptions    []string
	Families       []famPlan
	QuickBudget    time.Duration
	ThoroughBudget time.Duration
	Batch          int
}

var commonAssumptions = []string{
	"the carrier stub models grpc-go's bidirectional stream contract (reliable, ordered, back-pressured; errors and endings as in grpc-go v1.75.1 stream.go); HTTP/2 and TCP are not simulated",
	"interleavings are explored at the granularity of synchronisation operations (mutex, atomic, channel, goroutine start); plain memory accesses between two of them are never separated",
	"dependencies (context, protobuf, grpc status/metadata, grpchan.HandlerMap) run real code but are not instrumented",
	"applications use the gRPC API legally (one sender and one receiver per stream, no Send after CloseSend)",
	"sampling, not enumeration: a clean batch is evidence, not proof",
}

var props = map[string]*propSpec{
	"C01": {
		Level: "exploration",
		Rule: "one run = one seeded configuration (topology x flow-control mode x carrier capacity/latency) x workload (1-8 concurrent RPCs, boundary-biased sizes, per-RPC cancel/deadline/early-return, tunnel-level close/break/ctx-cancel at a frame) x schedule; " +
			"non-trivial = at least two RPCs had handlers running on the tunnel or a message spanned several chunks; distinct = distinct schedule digests (FNV over the sequence of (goroutine, yield class) decisions)",
		Families:       []famPlan{{Family: "msgflow", Weight: 1}},
		QuickBudget:    50 * time.Second,
		ThoroughBudget: 15 * time.Minute,
	},
	"C02": {
		Level: "exploration",
		Rule: "one run = configuration x 1-4 RPCs whose handlers execute a random permutation of SetHeader/SendHeader/Send/SetTrailer ending in a random status (17 codes, messages, details) or a plain error (io.EOF, a wrapped io.EOF, errors.New: the caller sees Unknown with its text), random request metadata (outgoing context and/or one or two per-RPC credentials options, -bin values), random call options and caller Header/Recv/Trailer orders x schedule; " +
			"non-trivial = at least one RPC ran to its handler's own return and was compared against the reference model; distinct = distinct schedule digests",
		Families:       []famPlan{{Family: "meta", Weight: 3}, {Family: "meta", Weight: 1, Param: map[string]int{"bare": 1}}, {Family: "meta", Weight: 1, Param: map[string]int{"nonutf8": 1}}, {Family: "cancel", Weight: 1}},
		QuickBudget:    50 * time.Second,
		ThoroughBudget: 15 * time.Minute,
	},
	"C03": {
		Level: "exploration",
		Rule: "one run = configuration x 2-5 bystander RPCs (free-running, or parked in flight behind a gate) x 1-2 disturbers drawn from {handler error, unknown service/method, malformed method name, started after shutdown, cancelled, expired, caller never reads, handler never reads, invalid strings} x schedule; the disturbance is left to settle completely, then the bystanders must finish as planned, the tunnel must be up and a fresh RPC must succeed; " +
			"non-trivial = a disturber RPC was issued while bystanders were in flight; distinct = distinct schedule digests",
		Families:       []famPlan{{Family: "bystander", Weight: 3}, {Family: "bystander", Weight: 1, Param: map[string]int{"nonutf8": 1, "disturber": 9}}},
		QuickBudget:    50 * time.Second,
		ThoroughBudget: 15 * time.Minute,
	},
	"C04": {
		Level: "fault_enumeration",
		Rule: "per baseline (seeded configuration x workload of 1-5 RPCs in assorted phases x schedule) (some handlers wait for their context, some of those then send headers or simply carry on until the harness releases them after the drain probe) the fault-free run reports its N carrier frames; then each of 6 termination causes (channel Close, cancel / expiry of the opening context, Stop, GracefulStop+Stop, carrier failure) is injected at frame boundary k (thorough: every k in 1..N; quick: a stratified sample) and the run is driven to final quiescence (all timers fired); plus fully random placements; plus a variant in which a second channel was started from the same pending channel and must outlive the Close of the first; " +
			"non-trivial = the tunnel ended while at least one RPC was in flight; distinct = distinct schedule digests",
		Families:       []famPlan{{Family: "teardown", Weight: 3, Enum: true, EnumCauses: 6, EnumQuick: 10}, {Family: "teardown", Weight: 1}, {Family: "teardown", Weight: 1, Param: map[string]int{"sibling": 1, "cause": 0}}, {Family: "teardown", Weight: 1, Param: map[string]int{"fromhandler": 1, "cause": 3}}},
		QuickBudget:    55 * time.Second,
		ThoroughBudget: 20 * time.Minute,
	},
	"C07": {
		Level: "fault_enumeration",
		Rule: "per baseline (configuration x RPC of interest in a random phase + 0-3 bystanders x schedule) the fault-free run reports its N frames; the caller's context is then cancelled at every frame boundary k (thorough; quick: stratified sample), in a second variant with all delivery towards the caller held back afterwards, and deadlines are placed at virtual instants; the run is driven to final quiescence, then a fresh RPC is issued; " +
			"non-trivial = the cancellation took effect while the RPC was in flight; distinct = distinct schedule digests",
		Families:       []famPlan{{Family: "cancel", Weight: 3, Enum: true, EnumCauses: 3, EnumQuick: 10}, {Family: "cancel", Weight: 1}},
		QuickBudget:    55 * time.Second,
		ThoroughBudget: 20 * time.Minute,
	},
	"C05": {
		Level: "exploration",
		Rule: "family flowcore: the flow-control sender and receiver in isolation (verif constructors), window in {1,2,3,7,64,65536}, producer / frame pump / credit pump (single or batched credits) / pausing consumer / canceller goroutines, scheduling points at every atomic operation, lock and channel operation; conservation (sender window + bytes in flight + receiver queue + credit in flight <= window) is checked atomically after every harness step, a stall is legitimate only with the consumer parked on a full window, the window must be fully restored at the end; family flow: 2-12 streams over a whole tunnel with stalled-then-resumed consumers and carrier capacity from one frame, the two directions of a stream judged separately when the other end reads and sends from two goroutines (a parked reader must not hold up the opposite direction); volume runs: 70000 (thorough 200000) one-byte messages on one stream; " +
			"non-trivial = a sender actually waited on a zero window / a run stalled on full windows or carried multi-chunk messages; distinct = distinct schedule digests",
		Families:       []famPlan{{Family: "flowcore", Weight: 4}, {Family: "flow", Weight: 3, Batch: 10}, {Family: "flow", Weight: 1, Batch: 1, Param: map[string]int{"volume": 1}}},
		QuickBudget:    50 * time.Second,
		ThoroughBudget: 20 * time.Minute,
	},
	"C06": {
		Level: "exploration",
		Rule: "the window / chunk / credit rules of the wire monitor (un-credited bytes on the wire <= advertised window, <= 16384 message bytes per frame, cumulative credit <= data delivered) run on every frame of the message-flow, flow-control and teardown families; family overrun: a raw peer (client against the real server, server against the real client, both network roles) overruns the 64 KiB window by 1 byte .. 16 windows, in one message or many, in chunks of 1000 / 16384 / 60000 bytes, after 0-2 genuinely consumed messages, while the application is parked, with a bystander in flight and a fresh RPC afterwards; flowcore checks the receiver in isolation; " +
			"non-trivial = the overrun was sent / a message spanned several chunks; distinct = distinct schedule digests",
		Families:       []famPlan{{Family: "overrun", Weight: 3}, {Family: "msgflow", Weight: 2}, {Family: "flow", Weight: 1, Batch: 10}, {Family: "flowcore", Weight: 1}, {Family: "rawfuzz", Weight: 1}},
		QuickBudget:    45 * time.Second,
		ThoroughBudget: 15 * time.Minute,
	},
	"C08": {
		Level: "exploration",
		Rule: "family idrace: 2-16 caller goroutines released together start RPCs (mixed shapes, some failing at start: failing / secure-only credentials, already-cancelled context) on one channel x schedule, wire monitor checks ids strictly increase and every id starts with new_stream, history checks one handler invocation per completed call; family idraw: a raw tunnel client (both network roles, negotiated or legacy) sends valid streams and one of {reuse live id, reuse finished id, backwards id, negative id, frames for a finished id, skipped-ahead id, frame for a never-created id}, then a probe stream; " +
			"non-trivial = at least two RPCs were started concurrently / the deviation was sent; distinct = distinct schedule digests",
		Families:       []famPlan{{Family: "idrace", Weight: 2}, {Family: "idraw", Weight: 2}},
		QuickBudget:    45 * time.Second,
		ThoroughBudget: 15 * time.Minute,
	},
	"C09": {
		Level: "exploration",
		Rule: "raw client role: 1-4 valid streams of all shapes (messages chunked arbitrarily) generated from the protocol grammar, interleaved, with 0-3 deviations drawn from {drop, duplicate, swap, id -> unknown / negative / another stream, wrong size, oversize chunk, bad or empty method name, continuation without envelope, bad revision, empty frame, absurd windows and window updates, extra half-close / cancel}, then a probe stream, then hang-up; the documented stream-id rules are run over the frame list to classify the expected outcome (stream-level vs tunnel-level); raw server role: scripted callers against a raw server that answers with {duplicate headers, message before headers, unknown ids, frames after close, oversize / mis-sized messages, empty frames, absurd window updates, settings mid-stream, close twice, no close}; both network roles, negotiated and legacy; " +
			"non-trivial = at least one deviation was applied; distinct = distinct schedule digests",
		Families:       []famPlan{{Family: "rawfuzz", Weight: 3}, {Family: "overrun", Weight: 1}, {Family: "idraw", Weight: 1}},
		QuickBudget:    50 * time.Second,
		ThoroughBudget: 15 * time.Minute,
	},
	"C10": {
		Level: "fault_enumeration",
		Rule: "per baseline (configuration x 0-3 in-flight RPCs kept open by handler sleeps x schedule) the fault-free run reports its N frames; graceful shutdown (InitiateShutdown / GracefulStop in its own goroutine) is then initiated at every frame boundary k (thorough; quick: stratified sample), 1-4 further RPCs are attempted afterwards (directly and through the pooled channel), the run is driven to final quiescence, then Stop is called; multistop variants: a second GracefulStop call while the first is pending, 1-3 overlapping Stop calls, and (teardown family) Stop / GracefulStop+Stop at a random frame with RPCs in flight, followed by a Serve call on the stopped server, which must be refused and leave nothing behind, and Stop called by a handler that this very server is running - every single call is judged (Stop: every Serve returned and every handler ended or cancelled before it returns; GracefulStop: the RPCs in flight at the call have finished before it returns); " +
			"non-trivial = shutdown was initiated while at least one RPC was in flight; distinct = distinct schedule digests",
		Families: []famPlan{{Family: "graceful", Weight: 3, Enum: true, EnumCauses: 2, EnumQuick: 12}, {Family: "graceful", Weight: 1}, {Family: "graceful", Weight: 1, Param: map[string]int{"multistop": 1}},
			{Family: "teardown", Weight: 1, Param: map[string]int{"multistop": 1, "cause": 3}}, {Family: "teardown", Weight: 1, Param: map[string]int{"multistop": 1, "cause": 4}}, {Family: "teardown", Weight: 1, Param: map[string]int{"fromhandler": 1, "cause": 3}}},
		QuickBudget:    55 * time.Second,
		ThoroughBudget: 20 * time.Minute,
	},
	"C15": {
		Level: "exploration",
		Rule: "the -race build of the simulator: every simulator entry point is //go:norace and brackets its hand-offs with RaceDisable/RaceEnable, so the serialised execution carries exactly the happens-before edges of the production primitives; the harness proper is compiled without instrumentation and touches memory it shares with the library (call-option targets, metadata handed out by the library, message payloads, peers, in-place mutation of accessor results) only through the instrumented package verif/sim/touch, on the goroutine that an application would use; a report in which neither access was made by the library or through touch is counted (harness_only_race_reports) and not judged; " +
			"family concurrent (2-8 RPCs with Header / Trailer / option targets read right after their completion signal, per-RPC cancel / deadline / early return, and a control goroutine doing Close / Stop / GracefulStop / InitiateShutdown / registry queries / a second Close at a random step) and families identity, msgflow, teardown, cancel, graceful, registry, meta, bystander, flow and flowcore run under it; family concurrent also runs in the plain build for panics and deadlocks; " +
			"non-trivial = at least two RPCs ran; distinct = distinct schedule digests; a race report halts the worker (halt_on_error=1) and is attributed to the run in flight",
		Families: []famPlan{{Family: "concurrent", Weight: 4, Race: true}, {Family: "identity", Weight: 1, Race: true}, {Family: "concurrent", Weight: 1},
			{Family: "msgflow", Weight: 1, Race: true}, {Family: "teardown", Weight: 1, Race: true}, {Family: "cancel", Weight: 1, Race: true}, {Family: "graceful", Weight: 1, Race: true},
			{Family: "registry", Weight: 1, Race: true, Batch: 20}, {Family: "meta", Weight: 1, Race: true}, {Family: "bystander", Weight: 1, Race: true}, {Family: "flow", Weight: 1, Race: true, Batch: 10},
			{Family: "flowcore", Weight: 1, Race: true}},
		QuickBudget:    50 * time.Second,
		ThoroughBudget: 15 * time.Minute,
	},
	"C16": {
		Level: "exploration",
		Rule: "one run = one case from {raw client vs real server, raw server vs real client, application sends twice} x call shape x number of messages on the side in question (0-4) x chunking (1, 7, 16384 bytes, whole) x 0-2 messages after the half-close / close frame x network role x negotiated/legacy x schedule, followed by a fresh RPC on the same tunnel; " +
			"non-trivial = the case ran to its end; distinct = distinct schedule digests",
		Families:       []famPlan{{Family: "shapes", Weight: 1}},
		QuickBudget:    45 * time.Second,
		ThoroughBudget: 12 * time.Minute,
	},
	"C17": {
		Level: "exploration",
		Rule: "one run = a tunnel (forward, reverse with 1-4 tunnels behind one handler, nested) opened with drawn metadata, a peer and a context value x 2-6 concurrent RPCs (direct or through the pooled channel) whose handlers and callers call the four accessors at a random point, mutate what they get back (overwrite value slices in place, add keys) and call them again; ground truth for 'the tunnel that carried the RPC' is WithTunnelChannel cross-checked with the channel the RPC was issued on; the same family runs under the race detector in C15; " +
			"non-trivial = at least two probes ran; distinct = distinct schedule digests",
		Families:       []famPlan{{Family: "identity", Weight: 1}},
		QuickBudget:    35 * time.Second,
		ThoroughBudget: 10 * time.Minute,
	},
	"C18": {
		Level: "exploration",
		Rule: "one run = a tunnel (forward, reverse or nested; with or without its own opening deadline) x 1-4 RPCs each carrying a grpc-timeout header drawn from 16 classes (1-8 digits, leading zeros, 99999999, more than eight digits, values around and beyond int64 overflow for every unit, signs, spaces, empty / missing parts, unknown units, non-ASCII or non-decimal digits, repeated headers); the handler records ctx.Deadline() and virtual time at its start and, for durations up to 40 days, waits for its context to end; compared with an independent implementation of the gRPC wire specification; " +
			"non-trivial = at least one header was compared; distinct = distinct (class, header value) pairs are many; counted as distinct schedule digests. The quantifier of C18 is over inputs only: what the simulator contributes is the virtual clock that makes 'exactly' observable and lets hour- and day-scale expiries fire; there is no schedule search of substance here",
		Families:       []famPlan{{Family: "timeout", Weight: 1}},
		QuickBudget:    30 * time.Second,
		ThoroughBudget: 8 * time.Minute,
	},
	"C14": {
		Level: "exploration",
		Rule: "the histories of the families of C01-C12 (message flow, metadata, teardown at every phase, cancellation, bystanders and disturbers, graceful shutdown, flow control, id races and raw id deviations, raw-peer fuzzing, window overruns, call shapes, negotiation matrix and settings variants, registry churn, concurrent control operations); every run ends with a drain to final quiescence (table sizes probed through the verif accessors, registry compared with the open tunnels) and a full shutdown (every tunnel ended, every context cancelled, all timers fired) after which any goroutine started by the library that is still alive is a leak; a Serve call on a stopped reverse tunnel server (teardown family) must leave the number of live goroutines at the next stall unchanged; family soak: 3-6 (thorough 4-15) phases of 2-6 RPCs with assorted endings on one tunnel, quiescence between the phases, where the tables must be empty and the library's live goroutines (by spawn site) the same after every phase; " +
			"non-trivial = at least 3 goroutines were alive at once; distinct = distinct schedule digests",
		Families: []famPlan{{Family: "teardown", Weight: 3}, {Family: "msgflow", Weight: 2}, {Family: "meta", Weight: 1}, {Family: "cancel", Weight: 2}, {Family: "bystander", Weight: 1},
			{Family: "graceful", Weight: 1}, {Family: "flow", Weight: 1, Batch: 10}, {Family: "idrace", Weight: 1}, {Family: "idraw", Weight: 1}, {Family: "rawfuzz", Weight: 2}, {Family: "overrun", Weight: 1},
			{Family: "shapes", Weight: 1}, {Family: "matrix", Weight: 1}, {Family: "settings", Weight: 1}, {Family: "registry", Weight: 1, Batch: 20}, {Family: "concurrent", Weight: 1}, {Family: "soak", Weight: 3, Batch: 10}},
		QuickBudget:    55 * time.Second,
		ThoroughBudget: 20 * time.Minute,
	},
	"C11": {
		Level: "exploration",
		Rule: "family matrix: the 17 cells of {client: enabled, disabled, legacy} x {server: enabled, disabled, legacy} x {forward, reverse} that involve this library (legacy ends are revision-zero raw peers that never advertise negotiation) are drawn uniformly, each with all four RPC shapes under a random schedule and carrier capacity; family settings: a raw tunnel server presents one of 20 settings variants (revision lists incl. empty / unknown / duplicate / reordered, windows 0 / 1 / 2^32-1, wrong stream id, a different or empty first frame, end of stream, silence with a deadline) to a client with flow control enabled or disabled, forward and reverse, then serves an RPC; the revision rules of the wire monitor run on every frame of every family, including the teardown family, where tunnels end (and opening contexts expire) at every point of the settings exchange; " +
			"non-trivial = the cell / variant ran to its end; distinct = distinct schedule digests; the configuration matrix and the variant list are finite and every element is drawn many times per run of the check (counts in runs_by_config), schedules are sampled",
		Families:       []famPlan{{Family: "matrix", Weight: 2}, {Family: "settings", Weight: 2}, {Family: "msgflow", Weight: 1}, {Family: "teardown", Weight: 1}},
		QuickBudget:    45 * time.Second,
		ThoroughBudget: 12 * time.Minute,
	},
	"C12": {
		Level: "exploration",
		Rule: "one run = one handler (affinity key from the tunnel-opening metadata, keys from {nil, a, b}) and one ReverseTunnelServer; 1-3 phases, each opening / closing (context cancel, Close of the server-side channel, carrier failure) up to 6 reverse tunnels concurrently with 2-5 client goroutines issuing routed RPCs, Ready, WaitForReady (with deadlines) and AllReverseTunnels on the pooled channels, lock-granularity schedules; after each phase the run is driven to quiescence where the registry is compared with the ground truth and 2n consecutive RPCs per pool test round-robin; finally Stop. Each pool's history (Open, Close, Pick, Ready, All with event-sequence intervals) is checked with porcupine against a sequential set model (Unknown = inconclusive); " +
			"non-trivial = client operations ran concurrently with tunnel changes; distinct = distinct schedule digests",
		Families:       []famPlan{{Family: "registry", Weight: 1, Batch: 20}},
		QuickBudget:    45 * time.Second,
		ThoroughBudget: 15 * time.Minute,
	},
	"C13": {
		Level: "exploration",
		Rule:  "every frame of every run is fed to the protocol monitor (appendix A of DESIGN.md); non-trivial = the run carried at least 20 frames; distinct = distinct schedule digests",
		Families: []famPlan{{Family: "msgflow", Weight: 3}, {Family: "teardown", Weight: 2}, {Family: "meta", Weight: 2}, {Family: "cancel", Weight: 2}, {Family: "graceful", Weight: 1}, {Family: "flow", Weight: 1, Batch: 10},
			{Family: "idrace", Weight: 1}, {Family: "matrix", Weight: 1}, {Family: "concurrent", Weight: 1}, {Family: "bystander", Weight: 1}, {Family: "shapes", Weight: 1}, {Family: "rawfuzz", Weight: 1}},
		QuickBudget:    50 * time.Second,
		ThoroughBudget: 15 * time.Minute,
	},
}

func init() {
	for _, p := range props {
		if p.Assumptions == nil {
			p.Assumptions = commonAssumptions
		}
	}
}

// specGen hands out batches of run specs.
type specGen struct {
	mu     sync.Mutex
	id     string
	ps     *propSpec
	tier   string
	seed   uint64
	next_  uint64
	cycle  []int // family indexes by weight
	pos    int
	b      *build
	a      *agg
	queue  [][]RunSpec // enumerated specs waiting to be handed out
	queueR []bool
}

func newSpecGen(id string, ps *propSpec, tier string, seed uint64, b *build, a *agg) *specGen {
	g := &specGen{id: id, ps: ps, tier: tier, seed: seed, b: b, a: a}
	for i, f := range ps.Families {
		w := f.Weight
		if w <= 0 {
			w = 1
		}
		for j := 0; j < w; j++ {
			g.cycle = append(g.cycle, i)
		}
	}
	return g
}

func (g *specGen) next(batch int) ([]RunSpec, bool) {
	g.mu.Lock()
	defer g.mu.Unlock()
	if len(g.queue) > 0 {
		s, r := g.queue[0], g.queueR[0]
		g.queue, g.queueR = g.queue[1:], g.queueR[1:]
		return s, r
	}
	fi := g.cycle[g.pos%len(g.cycle)]
	g.pos++
	f := g.ps.Families[fi]
	if f.Enum {
		return g.enumBatch(f)
	}
	n := batch
	if f.Batch > 0 {
		n = f.Batch
	}
	if f.Race {
		n = batch / 2
		if n < 1 {
			n = 1
		}
	}
	specs := make([]RunSpec, 0, n)
	for i := 0; i < n; i++ {
		sp := RunSpec{Family: f.Family, Seed: g.seed, Run: g.next_, Tier: g.tier, Property: g.id}
		if f.Param != nil || f.Race {
			sp.Param = map[string]int{}
			for k, v := range f.Param {
				sp.Param[k] = v
			}
			if f.Race {
				sp.Param["race"] = 1
			}
		}
		g.next_++
		specs = append(specs, sp)
	}
	return specs, f.Race
}

// enumBatch runs one baseline synchronously and returns the fault-point specs.
func (g *specGen) enumBatch(f famPlan) ([]RunSpec, bool) {
	run := g.next_
	g.next_++
	base := RunSpec{Family: f.Family, Seed: g.seed, Run: run, Tier: g.tier, Property: g.id, Param: map[string]int{"k": -1, "cause": -1}}
	for k, v := range f.Param {
		base.Param[k] = v
	}
	g.mu.Unlock()
	outs, _, _, _, _ := runJob(g.b, &Job{Runs: []RunSpec{base}}, 1, 10*time.Minute)
	g.mu.Lock()
	if len(outs) != 1 || outs[0].Infra != "" {
		return []RunSpec{base}, false
	}
	g.a.add(g.id, outs[0])
	n := outs[0].Frames
	if v, ok := outs[0].Counters["enum.points"]; ok {
		n = int(v)
	}
	var ks []int
	if g.tier == "thorough" || n <= f.EnumQuick {
		for k := 1; k <= n; k++ {
			ks = append(ks, k)
		}
	} else {
		// stratified sample: EnumQuick points spread over 1..n, offset by the run index
		for i := 0; i < f.EnumQuick; i++ {
			k := 1 + (i*n+int(run)%n)/f.EnumQuick
			if k > n {
				k = n
			}
			ks = append(ks, k)
		}
	}
	g.a.mu.Lock()
	g.a.enumTotal += n * f.EnumCauses
	g.a.enumDone += len(ks) * f.EnumCauses
	g.a.mu.Unlock()
	var specs []RunSpec
	for c := 0; c < f.EnumCauses; c++ {
		for _, k := range ks {
			sp := RunSpec{Family: f.Family, Seed: g.seed, Run: run, Tier: g.tier, Property: g.id, Param: map[string]int{"k": k, "cause": c}}
			for kk, v := range f.Param {
				sp.Param[kk] = v
			}
			specs = append(specs, sp)
		}
	}
	if len(specs) == 0 {
		return []RunSpec{}, false
	}
	// hand out in chunks
	const chunk = 60
	for len(specs) > chunk {
		g.queue = append(g.queue, specs[:chunk])
		g.queueR = append(g.queueR, false)
		specs = specs[chunk:]
	}
	return specs, false
}

func cmdSelftest(args []string) int {
	if len(args) < 1 {
		fatal2("usage: verif selftest determinism [--seeds N]")
	}
	switch args[0] {
	case "determinism":
		return selftestDeterminism(args[1:])
	}
	fmt.Println("unknown selftest", args[0])
	return 2
}
