// Command verif is the driver of the deterministic-simulation checks
// (DESIGN.md 7). It does not link the library: it rewrites /repo's current
// working tree into a scratch overlay, builds the simulator test binary
// against it, fans seeds out over worker processes, aggregates their reports
// into evidence/<id>.json, shrinks violations into replay files and applies
// known_findings.json.
//
//	verif check <ID> --tier quick|thorough
//	verif replay <file>
//	verif selftest determinism|sensitivity
//
// Exit codes: 0 held, 1 violation (with VIOLATION lines), 2 infrastructure.
package main

import (
	"bufio"
	"bytes"
	"crypto/sha256"
	"encoding/json"
	"errors"
	"flag"
	"fmt"
	"os"
	"os/exec"
	"path/filepath"
	"runtime"
	"sort"
	"strconv"
	"strings"
	"sync"
	"syscall"
	"time"

	"verif/rewrite"
)

const (
	repoDir  = "/repo"
	goBin    = "go1.26.8"
	buildTag = "verif"
)

func verifDir() string {
	if d := os.Getenv("VERIF_DIR"); d != "" {
		return d
	}
	exe, err := os.Executable()
	if err == nil {
		d := filepath.Dir(filepath.Dir(exe))
		if _, err := os.Stat(filepath.Join(d, "go.mod")); err == nil {
			return d
		}
	}
	wd, _ := os.Getwd()
	return wd
}

func goEnv() []string {
	env := os.Environ()
	env = append(env, "GOFLAGS=-mod=mod", "GOPROXY=off", "GOSUMDB=off", "GOTOOLCHAIN=local", "CGO_ENABLED=1")
	return env
}

// outDir is where evidence and replays are written: /verif, unless
// VERIF_OUT_DIR redirects them (used when a check is run against a
// deliberately broken tree, whose results must not replace the evidence).
func outDir() string {
	if d := os.Getenv("VERIF_OUT_DIR"); d != "" {
		return d
	}
	return verifDir()
}

func fatal2(format string, a ...any) {
	fmt.Fprintf(os.Stderr, "verif: infrastructure failure: "+format+"\n", a...)
	os.Exit(2)
}

func main() {
	if len(os.Args) < 2 {
		fmt.Fprintln(os.Stderr, "usage: verif check <ID> --tier quick|thorough | replay <file> | selftest <name>")
		os.Exit(2)
	}
	switch os.Args[1] {
	case "check":
		os.Exit(cmdCheck(os.Args[2:]))
	case "replay":
		os.Exit(cmdReplay(os.Args[2:]))
	case "selftest":
		os.Exit(cmdSelftest(os.Args[2:]))
	case "run":
		os.Exit(cmdRun(os.Args[2:]))
	case "classify":
		// debugging aid: how a crash / race report stored in a replay file is classified
		rf, err := loadReplay(os.Args[2])
		if err != nil {
			fatal2("%v", err)
		}
		k, d := classifyCrash(rf.Violation.Msg)
		fmt.Println(k, d)
		os.Exit(0)
	case "build":
		// warm-up / debugging aid: builds the simulator (and with "race" also the
		// -race variant) against the current tree and prints the path; the
		// scratch directory is left for the caller to use and remove
		b := buildSim(false)
		fmt.Println(b.bin)
		if len(os.Args) > 2 && os.Args[2] == "race" {
			br := buildSim(true)
			fmt.Println(br.bin)
			br.cleanup()
			b.cleanup()
		}
		os.Exit(0)
	default:
		fmt.Fprintln(os.Stderr, "unknown command", os.Args[1])
		os.Exit(2)
	}
}

// ---- build -------------------------------------------------------------------

type build struct {
	dir     string // scratch directory (removed by cleanup)
	bin     string
	race    bool
	rwStats *rewrite.Stats
	tree    string // fingerprint of the library sources
}

func (b *build) cleanup() {
	if b != nil && b.dir != "" {
		os.RemoveAll(b.dir)
	}
}

func treeFingerprint() string {
	h := sha256.New()
	ents, _ := os.ReadDir(repoDir)
	for _, e := range ents {
		if e.IsDir() || !strings.HasSuffix(e.Name(), ".go") || strings.HasSuffix(e.Name(), "_test.go") {
			continue
		}
		b, _ := os.ReadFile(filepath.Join(repoDir, e.Name()))
		fmt.Fprintf(h, "%s %d\n", e.Name(), len(b))
		h.Write(b)
	}
	return fmt.Sprintf("%x", h.Sum(nil))[:16]
}

// buildSim rewrites the current working tree of /repo and builds the simulator
// test binary against the overlay.
func buildSim(race bool) *build {
	tmpRoot := os.Getenv("TMPDIR")
	if tmpRoot == "" {
		tmpRoot = "/tmp"
	}
	dir, err := os.MkdirTemp(tmpRoot, "verif-build-")
	if err != nil {
		fatal2("mkdtemp: %v", err)
	}
	// VERIF_BUILD_LOCK: serialise the snapshot of /repo's working tree with
	// whoever else holds the lock (a script that has a deliberately broken tree
	// applied for a while); the lock is released as soon as the binary is built
	if lp := os.Getenv("VERIF_BUILD_LOCK"); lp != "" {
		if lf, err := os.OpenFile(lp, os.O_CREATE|os.O_RDWR, 0o644); err == nil {
			if syscall.Flock(int(lf.Fd()), syscall.LOCK_EX) == nil {
				defer func() {
					syscall.Flock(int(lf.Fd()), syscall.LOCK_UN)
					lf.Close()
				}()
			}
		}
	}
	b := &build{dir: dir, race: race, tree: treeFingerprint()}
	ovDir := filepath.Join(dir, "ov")
	if err := os.MkdirAll(ovDir, 0o755); err != nil {
		fatal2("%v", err)
	}
	ov, st, err := rewrite.Dir(repoDir, ovDir)
	if err != nil {
		b.cleanup()
		fatal2("rewrite of %s failed: %v", repoDir, err)
	}
	b.rwStats = st
	ovJSON, _ := json.Marshal(map[string]any{"Replace": ov})
	ovPath := filepath.Join(dir, "overlay.json")
	if err := os.WriteFile(ovPath, ovJSON, 0o644); err != nil {
		fatal2("%v", err)
	}
	b.bin = filepath.Join(dir, "sim.test")
	args := []string{"test", "-c", "-tags", buildTag, "-overlay", ovPath, "-o", b.bin}
	if race {
		// The harness proper (package verif/sim) is not instrumented: it is
		// serialised by the simulator's hidden hand-offs and the detector
		// would report its bookkeeping. Its accesses to memory shared with
		// the library go through verif/sim/touch, which is instrumented.
		args = append(args, "-race", "-gcflags=verif/sim=-race=false")
	}
	args = append(args, "./sim")
	cmd := exec.Command(goBin, args...)
	cmd.Dir = verifDir()
	cmd.Env = goEnv()
	out, err := cmd.CombinedOutput()
	if err != nil {
		b.cleanup()
		fatal2("build of the simulator against the current tree failed:\n%s", out)
	}
	return b
}

// ---- worker protocol (mirrors verif/sim) ----------------------------------------

type RunSpec struct {
	Family   string         `json:"family"`
	Seed     uint64         `json:"seed"`
	Run      uint64         `json:"run"`
	Tier     string         `json:"tier"`
	Replay   []uint32       `json:"replay,omitempty"`
	Param    map[string]int `json:"param,omitempty"`
	KeepLog  bool           `json:"keep_log,omitempty"`
	Property string         `json:"property,omitempty"`
}

type Violation struct {
	Property string            `json:"property"`
	Kind     string            `json:"kind"`
	Msg      string            `json:"msg"`
	Detail   map[string]string `json:"detail,omitempty"`
	Seq      int64             `json:"seq,omitempty"`
}

type RunOutput struct {
	Spec          RunSpec          `json:"spec"`
	Violations    []Violation      `json:"violations,omitempty"`
	Steps         int64            `json:"steps"`
	Digest        string           `json:"digest"`
	SimTimeNs     int64            `json:"sim_time_ns"`
	Counters      map[string]int64 `json:"counters,omitempty"`
	Desc          map[string]any   `json:"desc,omitempty"`
	Choices       []uint32         `json:"choices,omitempty"`
	NChoices      int              `json:"n_choices"`
	Nontrivial    bool             `json:"nontrivial"`
	Pairs         []uint64         `json:"pairs,omitempty"`
	NPairs        int              `json:"n_pairs"`
	Stalled       bool             `json:"stalled,omitempty"`
	Budget        bool             `json:"budget,omitempty"`
	MaxLive       int              `json:"max_live"`
	Events        int              `json:"events"`
	Frames        int              `json:"frames"`
	History       []string         `json:"history,omitempty"`
	SchedLog      []string         `json:"sched_log,omitempty"`
	Infra         string           `json:"infra,omitempty"`
	UnknownYields int64            `json:"unknown_yields,omitempty"`
	UnknownSpawns int64            `json:"unknown_spawns,omitempty"`
	ClassSteps    [6]int64         `json:"class_steps"`
	WallUs        int64            `json:"wall_us"`
	Inconclusive  int              `json:"inconclusive,omitempty"`
	Start         *struct {
		Family string `json:"family"`
		Seed   uint64 `json:"seed"`
		Run    uint64 `json:"run"`
	} `json:"start,omitempty"`
}

type ShrinkJob struct {
	Spec     RunSpec           `json:"spec"`
	Property string            `json:"property"`
	Kind     string            `json:"kind"`
	Detail   map[string]string `json:"detail,omitempty"`
	BudgetMs int               `json:"budget_ms"`
}

type ShrinkResult struct {
	Choices  []uint32   `json:"choices"`
	Out      *RunOutput `json:"out"`
	Attempts int        `json:"attempts"`
	Accepted int        `json:"accepted"`
	From     int        `json:"from"`
}

type Job struct {
	Runs   []RunSpec  `json:"runs"`
	Out    string     `json:"out"`
	Shrink *ShrinkJob `json:"shrink,omitempty"`
}

// runJob executes one job in a fresh worker process and returns its outputs.
// crashed is the spec in flight if the worker died.
func runJob(b *build, job *Job, gomaxprocs int, timeout time.Duration) (outs []*RunOutput, shrink *ShrinkResult, crashed *RunSpec, stderr string, err error) {
	f, err := os.CreateTemp(b.dir, "job-*.json")
	if err != nil {
		return nil, nil, nil, "", err
	}
	jobPath := f.Name()
	job.Out = jobPath + ".out"
	jb, _ := json.Marshal(job)
	f.Write(jb)
	f.Close()
	defer os.Remove(jobPath)
	defer os.Remove(job.Out)
	limit := ""
	if !b.race {
		limit = "ulimit -v 33554432; " // 32 GiB address space per worker
	}
	cmd := exec.Command("sh", "-c", limit+"exec \"$0\" -test.run '^TestWorker$' -test.cpu 1 -test.timeout 0 -test.count 1", b.bin)
	cmd.Env = append(os.Environ(), "VERIF_JOB="+jobPath, "GOMAXPROCS="+strconv.Itoa(gomaxprocs), "GORACE=halt_on_error=1 history_size=2")
	var eb bytes.Buffer
	cmd.Stderr = &eb
	cmd.Stdout = &eb
	if err := cmd.Start(); err != nil {
		return nil, nil, nil, "", err
	}
	done := make(chan error, 1)
	go func() { done <- cmd.Wait() }()
	var werr error
	select {
	case werr = <-done:
	case <-time.After(timeout):
		cmd.Process.Kill()
		werr = errors.New("worker timed out")
		<-done
	}
	stderr = eb.String()
	// parse what was written
	of, oerr := os.Open(job.Out)
	if oerr == nil {
		defer of.Close()
		sc := bufio.NewScanner(of)
		sc.Buffer(make([]byte, 1<<20), 1<<30)
		var inflight *RunSpec
		for sc.Scan() {
			line := sc.Bytes()
			if len(line) == 0 {
				continue
			}
			if job.Shrink != nil {
				var sr ShrinkResult
				if json.Unmarshal(line, &sr) == nil {
					shrink = &sr
				}
				continue
			}
			var o RunOutput
			if err := json.Unmarshal(line, &o); err != nil {
				continue
			}
			if o.Start != nil {
				inflight = &RunSpec{Family: o.Start.Family, Seed: o.Start.Seed, Run: o.Start.Run}
				continue
			}
			inflight = nil
			oc := o
			outs = append(outs, &oc)
		}
		if werr != nil && inflight != nil {
			// find the full spec
			for i := range job.Runs {
				if job.Runs[i].Family == inflight.Family && job.Runs[i].Seed == inflight.Seed && job.Runs[i].Run == inflight.Run {
					crashed = &job.Runs[i]
				}
			}
		}
	}
	return outs, shrink, crashed, stderr, werr
}

// ---- known findings ------------------------------------------------------------

type Finding struct {
	Property    string            `json:"property"`
	Status      string            `json:"status"` // "known" | "fixed"
	Kind        string            `json:"kind"`
	Match       map[string]string `json:"match,omitempty"`
	Description string            `json:"description"`
	Commit      string            `json:"commit,omitempty"`
}

func loadFindings() []Finding {
	b, err := os.ReadFile(filepath.Join(verifDir(), "known_findings.json"))
	if err != nil {
		return nil
	}
	var fs struct {
		Findings []Finding `json:"findings"`
	}
	if err := json.Unmarshal(b, &fs); err != nil {
		fatal2("known_findings.json: %v", err)
	}
	return fs.Findings
}

func (f *Finding) matches(prop string, v *Violation) bool {
	if f.Status != "known" || (f.Kind != v.Kind && f.Kind != "*") {
		return false
	}
	if f.Property != "*" && f.Property != prop && f.Property != v.Property {
		return false
	}
	for k, want := range f.Match {
		if v.Detail[k] != want {
			return false
		}
	}
	return true
}

// ---- check ---------------------------------------------------------------------

type agg struct {
	mu           sync.Mutex
	runs         int
	nontrivial   int
	digests      map[string]bool
	ntDigests    map[string]bool
	pairs        map[uint64]bool
	steps        int64
	simS         float64 // seconds: C18's day- and year-scale runs overflow an int64 of nanoseconds when summed
	counters     map[string]int64
	byFamily     map[string]int
	byConfig     map[string]int
	samples      []any
	viol         map[string]*violRec // key property:kind(+detail)
	notes        map[string]int
	noteSeed     map[string]string
	harnessRaces int
	infra        []string
	stalled      int
	budget       int
	unknownY     int64
	unknownS     int64
	classSteps   [6]int64
	inconclusive int
	enumTotal    int
	enumDone     int
	frames       int64
	events       int64
}

type violRec struct {
	v     Violation
	out   *RunOutput
	count int
}

func newAgg() *agg {
	return &agg{digests: map[string]bool{}, ntDigests: map[string]bool{}, pairs: map[uint64]bool{}, counters: map[string]int64{},
		byFamily: map[string]int{}, byConfig: map[string]int{}, viol: map[string]*violRec{}, notes: map[string]int{}}
}

func violKey(v *Violation) string {
	ks := make([]string, 0, len(v.Detail))
	for k := range v.Detail {
		ks = append(ks, k)
	}
	sort.Strings(ks)
	s := v.Property + ":" + v.Kind
	for _, k := range ks {
		s += "|" + k + "=" + v.Detail[k]
	}
	return s
}

func (a *agg) add(prop string, o *RunOutput) {
	a.mu.Lock()
	defer a.mu.Unlock()
	if o.Infra != "" {
		a.infra = append(a.infra, fmt.Sprintf("%s seed=%d run=%d: %s", o.Spec.Family, o.Spec.Seed, o.Spec.Run, o.Infra))
		return
	}
	a.runs++
	a.digests[o.Digest] = true
	if o.Nontrivial {
		a.nontrivial++
		a.ntDigests[o.Digest] = true
	}
	for _, p := range o.Pairs {
		a.pairs[p] = true
	}
	a.steps += o.Steps
	a.simS += float64(o.SimTimeNs) / 1e9
	a.frames += int64(o.Frames)
	a.events += int64(o.Events)
	for k, v := range o.Counters {
		a.counters[k] += v
	}
	a.byFamily[o.Spec.Family]++
	cfg := fmt.Sprint(o.Desc["topology"], "/", o.Desc["flow_control"])
	if o.Desc["topology"] != nil {
		a.byConfig[cfg]++
	}
	if o.Stalled {
		a.stalled++
	}
	if o.Budget {
		a.budget++
	}
	a.unknownY += o.UnknownYields
	a.unknownS += o.UnknownSpawns
	a.inconclusive += o.Inconclusive
	for i, c := range o.ClassSteps {
		a.classSteps[i] += c
	}
	if len(a.samples) < 3 && o.Nontrivial {
		a.samples = append(a.samples, map[string]any{"family": o.Spec.Family, "seed": o.Spec.Seed, "run": o.Spec.Run, "param": o.Spec.Param,
			"config": o.Desc, "steps": o.Steps, "frames": o.Frames, "events": o.Events, "schedule_digest": o.Digest, "counters": o.Counters})
	}
	for i := range o.Violations {
		v := &o.Violations[i]
		if v.Property == prop || v.Property == "*" {
			k := violKey(v)
			if r := a.viol[k]; r != nil {
				r.count++
				// prefer the run with fewer choices as the representative
				if o.NChoices < r.out.NChoices {
					r.out = o
				}
			} else {
				a.viol[k] = &violRec{v: *v, out: o, count: 1}
			}
		} else {
			nk := v.Property + ":" + v.Kind + " in family " + o.Spec.Family
			if a.noteSeed == nil {
				a.noteSeed = map[string]string{}
			}
			if _, ok := a.noteSeed[nk]; !ok {
				a.noteSeed[nk] = fmt.Sprintf("seed=%d run=%d param=%v hol=%s", o.Spec.Seed, o.Spec.Run, o.Spec.Param, v.Detail["hol"])
			}
			a.notes[nk]++
		}
	}
}

func envSeed() uint64 {
	if s := os.Getenv("VERIF_SEED"); s != "" {
		if v, err := strconv.ParseUint(s, 10, 64); err == nil {
			return v
		}
		if v, err := strconv.ParseInt(s, 10, 64); err == nil {
			return uint64(v)
		}
	}
	return 1
}

func cmdCheck(args []string) int {
	if len(args) < 1 {
		fatal2("usage: verif check <ID> --tier quick|thorough")
	}
	id := args[0]
	fs := flag.NewFlagSet("check", flag.ExitOnError)
	tier := fs.String("tier", os.Getenv("VERIF_TIER"), "quick|thorough")
	budget := fs.Duration("budget", 0, "override the search wall-clock budget")
	workers := fs.Int("workers", runtime.NumCPU(), "worker processes")
	maxRuns := fs.Int("runs", 0, "cap on the number of runs (0 = budget only)")
	noShrink := fs.Bool("no-shrink", false, "skip minimisation")
	fs.Parse(args[1:])
	if *tier == "" {
		*tier = "quick"
	}
	ps, ok := props[id]
	if !ok {
		fatal2("unknown property %q", id)
	}
	t0 := time.Now()
	seed := envSeed()
	fmt.Printf("VERIF_SEED=%d property=%s tier=%s\n", seed, id, *tier)

	b := buildSim(false)
	defer b.cleanup()
	var braces *build
	needRace := false
	for _, fp := range ps.Families {
		if fp.Race {
			needRace = true
		}
	}
	if needRace {
		braces = buildSim(true)
		defer braces.cleanup()
	}
	fmt.Printf("built simulator against tree %s in %.1fs (rewrite: %d go stmts, %d selects determinised, %d left as is)\n",
		b.tree, time.Since(t0).Seconds(), b.rwStats.GoStmts, b.rwStats.Selects, b.rwStats.UndeterminisedSelects)

	bud := ps.QuickBudget
	if *tier == "thorough" {
		bud = ps.ThoroughBudget
	}
	if *budget > 0 {
		bud = *budget
	}
	a := newAgg()
	findings := loadFindings()

	// regression replays of fixed findings run first
	regDir := filepath.Join(verifDir(), "replays", "regression")
	regFailed := 0
	if ents, err := os.ReadDir(regDir); err == nil {
		for _, e := range ents {
			if !strings.HasPrefix(e.Name(), id+"-") || !strings.HasSuffix(e.Name(), ".json") {
				continue
			}
			rf, err := loadReplay(filepath.Join(regDir, e.Name()))
			if err != nil {
				continue
			}
			bb := b
			if rf.Race {
				if braces == nil {
					continue
				}
				bb = braces
			}
			spec := rf.Spec
			spec.Replay = rf.Choices
			spec.Property = id
			outs, _, _, _, _ := runJob(bb, &Job{Runs: []RunSpec{spec}}, 1, 5*time.Minute)
			for _, o := range outs {
				a.add(id, o)
			}
			_ = regFailed
		}
	}

	runSearch(id, ps, *tier, seed, bud, *workers, *maxRuns, b, braces, a)

	wall := time.Since(t0).Seconds()
	// classify violations
	exit := 0
	var keys []string
	for k := range a.viol {
		keys = append(keys, k)
	}
	sort.Strings(keys)
	knownHit := map[string]int{}
	var vioLines []string
	nViol := 0
	type pending struct {
		k string
		r *violRec
	}
	var todo []pending
	perKind := map[string]int{}
	for _, k := range keys {
		r := a.viol[k]
		var kf *Finding
		for i := range findings {
			if findings[i].matches(id, &r.v) {
				kf = &findings[i]
				break
			}
		}
		if kf != nil {
			knownHit[fmt.Sprintf("KNOWN-FINDING: property=%s %s", id, kf.Description)] += r.count
			continue
		}
		nViol++
		exit = 1
		fmt.Printf("violation %s (%d runs): %s\n", k, r.count, firstLine(r.v.Msg))
		// replay files: at most two per violation kind and twelve per check
		if perKind[r.v.Kind] >= 2 || len(todo) >= 12 {
			continue
		}
		perKind[r.v.Kind]++
		todo = append(todo, pending{k, r})
	}
	paths := make([]string, len(todo))
	var swg sync.WaitGroup
	for i, p := range todo {
		swg.Add(1)
		go func(i int, p pending) {
			defer swg.Done()
			bb := b
			if p.r.out.Spec.Param["race"] == 1 && braces != nil {
				bb = braces
			}
			paths[i] = writeReplay(bb, id, p.r, !*noShrink, *tier)
		}(i, p)
	}
	swg.Wait()
	for _, p := range paths {
		vioLines = append(vioLines, fmt.Sprintf("VIOLATION property=%s replay=%s", id, p))
	}
	var kl []string
	for l := range knownHit {
		kl = append(kl, l)
	}
	sort.Strings(kl)
	for _, l := range kl {
		fmt.Println(l)
	}
	if len(a.infra) > 0 {
		for i, s := range a.infra {
			if i < 5 {
				fmt.Fprintln(os.Stderr, "infra:", s)
			}
		}
	}
	writeEvidence(id, ps, *tier, seed, a, b, wall, nViol, knownHit)
	for k, n := range a.notes {
		fmt.Printf("note: %d runs also tripped %s (decided by that property's own check; first: %s)\n", n, k, a.noteSeed[k])
	}
	fmt.Printf("%s %s: %d runs, %d steps, %d distinct schedules, %.0f simulated s, %.1fs wall, %d violation kind(s), %d known finding(s)\n",
		id, *tier, a.runs, a.steps, len(a.digests), a.simS, wall, nViol, len(knownHit))
	for _, l := range vioLines {
		fmt.Println(l)
	}
	if exit == 0 && (len(a.infra) > 0 || a.runs == 0) {
		if a.runs == 0 || len(a.infra) > a.runs/20+1 {
			fmt.Fprintf(os.Stderr, "verif: %d runs completed, %d infrastructure failures\n", a.runs, len(a.infra))
			return 2
		}
	}
	return exit
}

func firstLine(s string) string {
	if i := strings.IndexByte(s, '\n'); i >= 0 {
		return s[:i]
	}
	return s
}

// runSearch fans runs out over workers until the budget or the run cap is reached.
func runSearch(id string, ps *propSpec, tier string, seed uint64, bud time.Duration, workers, maxRuns int, b, braces *build, a *agg) {
	deadline := time.Now().Add(bud)
	type task struct {
		specs []RunSpec
		race  bool
	}
	tasks := make(chan task, workers*2)
	var wg sync.WaitGroup
	crashViol := func(spec *RunSpec, stderr string, race bool) {
		// a worker died while running spec: a crash of the process (fatal
		// error / race report with halt_on_error). Attribute it.
		kind, detail := classifyCrash(stderr)
		if kind == "harness-race" {
			a.mu.Lock()
			a.harnessRaces++
			a.mu.Unlock()
			return
		}
		if kind == "" {
			a.mu.Lock()
			a.infra = append(a.infra, fmt.Sprintf("worker died on %s seed=%d run=%d: %s", spec.Family, spec.Seed, spec.Run, tail(stderr, 2000)))
			a.mu.Unlock()
			return
		}
		o := &RunOutput{Spec: *spec, Digest: "crash", Violations: []Violation{{Property: "*", Kind: kind, Msg: tail(stderr, 6000), Detail: detail}}}
		if race {
			if o.Spec.Param == nil {
				o.Spec.Param = map[string]int{}
			}
		}
		a.add(id, o)
	}
	for i := 0; i < workers; i++ {
		wg.Add(1)
		go func() {
			defer wg.Done()
			for t := range tasks {
				bb := b
				if t.race {
					bb = braces
				}
				specs := t.specs
				for len(specs) > 0 {
					outs, _, crashed, stderr, err := runJob(bb, &Job{Runs: specs}, 1, bud+10*time.Minute)
					for _, o := range outs {
						a.add(id, o)
					}
					if err == nil {
						break
					}
					if crashed == nil {
						a.mu.Lock()
						a.infra = append(a.infra, "worker failed: "+err.Error()+": "+tail(stderr, 1500))
						a.mu.Unlock()
						break
					}
					crashViol(crashed, stderr, t.race)
					a.mu.Lock()
					tooMany := len(a.infra) >= 8
					a.mu.Unlock()
					if tooMany || time.Now().After(deadline) {
						// the simulator itself is in trouble (watchdog, unexplained
						// deaths) or the budget is spent: do not grind through the
						// rest of the batch
						break
					}
					// continue after the crashed spec
					idx := -1
					for i := range specs {
						if specs[i].Family == crashed.Family && specs[i].Seed == crashed.Seed && specs[i].Run == crashed.Run && fmt.Sprint(specs[i].Param) == fmt.Sprint(crashed.Param) {
							idx = i
						}
					}
					if idx < 0 {
						break
					}
					specs = specs[idx+1:]
				}
			}
		}()
	}
	gen := newSpecGen(id, ps, tier, seed, b, a)
	batch := ps.Batch
	if batch == 0 {
		batch = 40
	}
	n := 0
	for time.Now().Before(deadline) && (maxRuns == 0 || n < maxRuns) {
		a.mu.Lock()
		tooMany := len(a.infra) >= 8
		a.mu.Unlock()
		if tooMany {
			break
		}
		specs, race := gen.next(batch)
		if len(specs) == 0 {
			continue
		}
		n += len(specs)
		tasks <- task{specs: specs, race: race}
	}
	close(tasks)
	wg.Wait()
}

func tail(s string, n int) string {
	if len(s) > n {
		return "..." + s[len(s)-n:]
	}
	return s
}

// classifyCrash turns the stderr of a dead worker into a violation kind.
func classifyCrash(stderr string) (string, map[string]string) {
	switch {
	case strings.Contains(stderr, "WARNING: DATA RACE"):
		at := raceSites(stderr)
		if at == "" {
			// Neither access was made by the library or through the harness's
			// application-side accessors (verif/sim/touch): two harness
			// goroutines handed an object to each other through the simulator's
			// hidden hand-offs and a dependency read it. Not a statement about
			// the code under test.
			return "harness-race", nil
		}
		return "data-race", map[string]string{"at": at}
	case strings.Contains(stderr, "WATCHDOG"):
		return "", nil
	case strings.Contains(stderr, "fatal error: concurrent map"):
		return "panic", map[string]string{"value": "fatal error: concurrent map access", "at": ""}
	case strings.Contains(stderr, "panic:") && strings.Contains(stderr, "github.com/jhump/grpctunnel"):
		return "panic", map[string]string{"value": "unrecovered panic", "at": ""}
	}
	return "", nil
}

// raceSites names, for each of the two accesses of a race report, the code
// that made it: walking down the access's stack, the first frame that belongs
// to the library ("github.com/jhump/grpctunnel."), to the harness's
// application-side accessors ("verif/sim/touch.", reported as "application:")
// or to the harness proper ("verif/sim.", "verif/simrt." ...). Frames of the
// runtime and of dependencies above it are skipped: a dependency is attributed
// to whoever called it. An access made by the harness proper - directly or
// through a dependency - is not an access of the code under test; a report
// with such an access yields "" (not judged; counted as
// harness_only_race_reports in the evidence). What an application would read
// or write goes through verif/sim/touch and is judged.
func raceSites(s string) string {
	var sites []string
	relevant := false
	lines := strings.Split(s, "\n")
	for i, l := range lines {
		l = strings.TrimSpace(l)
		if strings.HasPrefix(l, "Write at") || strings.HasPrefix(l, "Read at") || strings.HasPrefix(l, "Previous write at") || strings.HasPrefix(l, "Previous read at") ||
			strings.HasPrefix(l, "Atomic write at") || strings.HasPrefix(l, "Atomic read at") || strings.HasPrefix(l, "Previous atomic write at") || strings.HasPrefix(l, "Previous atomic read at") {
			for j := i + 1; j < len(lines) && j < i+80; j++ {
				f := strings.TrimSpace(lines[j])
				if f == "" {
					break
				}
				if strings.HasPrefix(f, "/") {
					continue // file:line of the frame above
				}
				fn := f
				if k := strings.LastIndex(fn, "("); k > 0 {
					fn = fn[:k]
				}
				switch {
				case strings.HasPrefix(fn, "github.com/jhump/grpctunnel."):
					sites = append(sites, strings.TrimPrefix(fn, "github.com/jhump/grpctunnel."))
					relevant = true
				case strings.HasPrefix(fn, "verif/sim/touch."):
					sites = append(sites, strings.Replace(fn, "verif/sim/touch.", "application:", 1))
					relevant = true
				case strings.HasPrefix(fn, "verif/"):
					sites = append(sites, "harness:"+strings.TrimPrefix(fn, "verif/"))
				default:
					continue
				}
				break
			}
		}
	}
	if !relevant {
		return ""
	}
	for _, st := range sites {
		if strings.HasPrefix(st, "harness:") {
			// one access was made by the harness proper, outside its
			// application-side accessors: bookkeeping (printing an error it
			// was handed by another harness goroutine, say). The ordering it
			// lacks is the simulator's hidden hand-off between two harness
			// goroutines, not something the library failed to provide.
			return ""
		}
	}
	sort.Strings(sites)
	return strings.Join(sites, " vs ")
}

// ---- replay files ---------------------------------------------------------------

type ReplayFile struct {
	Property  string    `json:"property"`
	Violation Violation `json:"violation"`
	Spec      RunSpec   `json:"spec"`
	Choices   []uint32  `json:"choices"`
	Unshrunk  []uint32  `json:"unshrunk_choices,omitempty"`
	Digest    string    `json:"schedule_digest"`
	Config    any       `json:"config"`
	History   []string  `json:"history"`
	Tree      string    `json:"tree"`
	Race      bool      `json:"race,omitempty"`
	Shrink    string    `json:"shrink,omitempty"`
	SchedLog  []string  `json:"schedule,omitempty"`
}

func loadReplay(path string) (*ReplayFile, error) {
	b, err := os.ReadFile(path)
	if err != nil {
		return nil, err
	}
	var rf ReplayFile
	if err := json.Unmarshal(b, &rf); err != nil {
		return nil, err
	}
	return &rf, nil
}

func writeReplay(b *build, id string, r *violRec, shrink bool, tier string) string {
	dir := filepath.Join(outDir(), "replays")
	os.MkdirAll(dir, 0o755)
	o := r.out
	rf := &ReplayFile{Property: id, Violation: r.v, Spec: o.Spec, Choices: o.Choices, Digest: o.Digest, Config: o.Desc, History: o.History, Tree: b.tree, Race: b.race}
	rf.Spec.Replay = nil
	rf.Spec.Property = id
	if shrink && len(o.Choices) > 0 {
		spec := o.Spec
		spec.Replay = o.Choices
		budget := 30000
		if tier == "thorough" {
			budget = 120000
		}
		_, sr, _, _, _ := runJob(b, &Job{Shrink: &ShrinkJob{Spec: spec, Property: r.v.Property, Kind: r.v.Kind, Detail: r.v.Detail, BudgetMs: budget}}, 1, time.Duration(budget)*time.Millisecond+5*time.Minute)
		if sr != nil && sr.Out != nil && len(sr.Choices) <= len(o.Choices) {
			rf.Unshrunk = o.Choices
			rf.Choices = sr.Choices
			rf.Digest = sr.Out.Digest
			rf.Config = sr.Out.Desc
			rf.History = sr.Out.History
			rf.SchedLog = sr.Out.SchedLog
			for _, v := range sr.Out.Violations {
				if v.Kind == r.v.Kind && violKey(&v) == violKey(&r.v) {
					rf.Violation = v
					if v.Property == "*" {
						rf.Violation.Property = id
					}
				}
			}
			rf.Shrink = fmt.Sprintf("%d -> %d choices in %d attempts (%d accepted)", sr.From, len(sr.Choices), sr.Attempts, sr.Accepted)
		}
	}
	if len(rf.Unshrunk) > 20000 {
		rf.Unshrunk = nil
	}
	name := fmt.Sprintf("%s-%s-%s-%d-%d.json", id, sanitize(r.v.Kind), o.Spec.Family, o.Spec.Seed, o.Spec.Run)
	path := filepath.Join(dir, name)
	jb, _ := json.MarshalIndent(rf, "", " ")
	os.WriteFile(path, jb, 0o644)
	return path
}

func sanitize(s string) string {
	var sb strings.Builder
	for _, c := range s {
		if (c >= 'a' && c <= 'z') || (c >= 'A' && c <= 'Z') || (c >= '0' && c <= '9') || c == '-' || c == '_' {
			sb.WriteRune(c)
		} else {
			sb.WriteByte('_')
		}
	}
	r := sb.String()
	if len(r) > 48 {
		r = r[:48]
	}
	return r
}

// cmdRun executes one run given by family, seed and run number (a debugging
// aid: the notes of a check name runs this way) and prints its history and
// every violation any oracle raised.
func cmdRun(args []string) int {
	fs := flag.NewFlagSet("run", flag.ExitOnError)
	family := fs.String("family", "", "scenario family")
	seed := fs.Uint64("seed", 1, "seed")
	run := fs.Uint64("run", 0, "run number")
	tier := fs.String("tier", "quick", "tier")
	param := fs.String("param", "", "k=v,k=v")
	race := fs.Bool("race", false, "race build")
	quiet := fs.Bool("quiet", false, "do not print the history")
	fs.Parse(args)
	spec := RunSpec{Family: *family, Seed: *seed, Run: *run, Tier: *tier, KeepLog: true}
	if *param != "" {
		spec.Param = map[string]int{}
		for _, kv := range strings.Split(*param, ",") {
			k, v, _ := strings.Cut(kv, "=")
			n, _ := strconv.Atoi(v)
			spec.Param[k] = n
		}
	}
	b := buildSim(*race)
	defer b.cleanup()
	outs, _, crashed, stderr, err := runJob(b, &Job{Runs: []RunSpec{spec}}, 1, 30*time.Minute)
	if crashed != nil || err != nil || len(outs) != 1 {
		fmt.Printf("worker failed: %v\n%s\n", err, tail(stderr, 6000))
		return 2
	}
	o := outs[0]
	if !*quiet {
		for _, l := range o.History {
			fmt.Println(l)
		}
	}
	d, _ := json.MarshalIndent(o.Desc, "", " ")
	fmt.Printf("config: %s\n", d)
	fmt.Printf("steps=%d digest=%s choices=%d stalled=%v\n", o.Steps, o.Digest, o.NChoices, o.Stalled)
	for _, v := range o.Violations {
		fmt.Printf("violation: %s %s %v: %s\n", v.Property, v.Kind, v.Detail, v.Msg)
	}
	return 0
}

func cmdReplay(args []string) int {
	if len(args) < 1 {
		fatal2("usage: verif replay <file>")
	}
	rf, err := loadReplay(args[0])
	if err != nil {
		fatal2("%v", err)
	}
	b := buildSim(rf.Race)
	defer b.cleanup()
	spec := rf.Spec
	spec.Replay = rf.Choices
	spec.KeepLog = true
	if spec.Replay == nil {
		spec.Replay = []uint32{}
	}
	outs, _, crashed, stderr, err := runJob(b, &Job{Runs: []RunSpec{spec}}, 1, 30*time.Minute)
	if crashed != nil {
		kind, detail := classifyCrash(stderr)
		fmt.Printf("worker crashed: %s %v\n%s\n", kind, detail, tail(stderr, 4000))
		if kind == rf.Violation.Kind {
			fmt.Printf("VIOLATION property=%s replay=%s\n", rf.Property, args[0])
			return 1
		}
		return 2
	}
	if err != nil || len(outs) != 1 {
		fatal2("replay run failed: %v\n%s", err, tail(stderr, 3000))
	}
	o := outs[0]
	if o.Infra != "" {
		fatal2("replay: %s", o.Infra)
	}
	for _, l := range o.History {
		fmt.Println(l)
	}
	fmt.Printf("schedule digest %s (recorded %s) match=%v tree %s (recorded %s)\n", o.Digest, rf.Digest, o.Digest == rf.Digest, b.tree, rf.Tree)
	for _, v := range o.Violations {
		if v.Kind == rf.Violation.Kind && (v.Property == rf.Violation.Property || v.Property == "*" || rf.Violation.Property == "*") {
			fmt.Printf("reproduced: %s %s: %s\n", v.Property, v.Kind, v.Msg)
			fmt.Printf("VIOLATION property=%s replay=%s\n", rf.Property, args[0])
			return 1
		}
	}
	fmt.Printf("not reproduced on this tree: %s %s\n", rf.Violation.Property, rf.Violation.Kind)
	return 0
}

// ---- evidence --------------------------------------------------------------------

func writeEvidence(id string, ps *propSpec, tier string, seed uint64, a *agg, b *build, wall float64, nViol int, known map[string]int) {
	faults := map[string]int64{}
	probes := map[string]int64{}
	for k, v := range a.counters {
		switch {
		case strings.HasPrefix(k, "fault."):
			faults[strings.TrimPrefix(k, "fault.")] = v
		case strings.HasPrefix(k, "probe."):
			probes[strings.TrimPrefix(k, "probe.")] = v
		default:
			probes[k] = v
		}
	}
	samples := a.samples
	if len(samples) == 0 {
		samples = []any{"no non-trivial run in this batch"}
	}
	perHour := 0.0
	if wall > 0 {
		perHour = float64(a.runs) / wall * 3600
	}
	var kf []string
	for l := range known {
		kf = append(kf, l)
	}
	sort.Strings(kf)
	cov := map[string]any{
		"evaluations":               a.runs,
		"distinct_nontrivial":       len(a.ntDigests),
		"rule":                      ps.Rule,
		"samples":                   samples,
		"exhaustive":                false,
		"seeds_per_hour":            int64(perHour),
		"sim_time_total_s":          a.simS,
		"steps_total":               a.steps,
		"frames_total":              a.frames,
		"history_events_total":      a.events,
		"runs_by_family":            a.byFamily,
		"runs_by_config":            a.byConfig,
		"faults_fired":              faults,
		"probes":                    probes,
		"distinct_schedule_digests": len(a.digests),
		"distinct_switch_pairs":     len(a.pairs),
		"steps_by_yield_class":      map[string]int64{"wake": a.classSteps[0], "lock": a.classSteps[1], "atomic": a.classSteps[2], "chan": a.classSteps[3], "go": a.classSteps[4], "app": a.classSteps[5]},
		"undeterminised_selects":    b.rwStats.UndeterminisedSelects,
		"rewrite":                   b.rwStats,
		"runs_stalled":              a.stalled,
		"runs_step_budget":          a.budget,
		"unknown_goroutine_yields":  a.unknownY,
		"unknown_goroutine_spawns":  a.unknownS,
		"inconclusive":              a.inconclusive,
		"infrastructure_failures":   len(a.infra),
		"harness_only_race_reports": a.harnessRaces,
		"known_findings_hit":        kf,
		"tree":                      b.tree,
		"components": map[string]any{
			"real": []string{"github.com/jhump/grpctunnel (whole package, working tree, sync/atomic/go/select routed through the simulator)", "tunnelpb generated stubs", "protobuf runtime", "context", "grpc metadata/status/codes/peer", "grpchan.HandlerMap"},
			"stub": []string{"carrier gRPC stream (in-memory model of grpc-go's stream contract)", "application callers and handlers (scripted actors)", "clock and timers (testing/synctest virtual time)", "remote peer in raw-peer families (scripted frames)"},
		},
	}
	if a.enumTotal > 0 {
		cov["fault_points_total"] = a.enumTotal
		cov["fault_points_enumerated"] = a.enumDone
	}
	ev := map[string]any{
		"property_id": id,
		"tier":        tier,
		"seed":        seed,
		"level":       ps.Level,
		"coverage":    cov,
		"assumptions": ps.Assumptions,
		"wall_s":      wall,
		"violations":  nViol,
	}
	dir := filepath.Join(outDir(), "evidence")
	os.MkdirAll(dir, 0o755)
	jb, _ := json.MarshalIndent(ev, "", " ")
	os.WriteFile(filepath.Join(dir, id+".json"), jb, 0o644)
	if tier == "thorough" {
		// kept beside the evidence of the latest run, which a later quick run replaces
		td := filepath.Join(dir, "thorough")
		os.MkdirAll(td, 0o755)
		os.WriteFile(filepath.Join(td, id+".json"), jb, 0o644)
	}
}
