// Command simrewrite writes the simulator overlay of a package directory.
//
//	simrewrite <srcdir> <outdir>   -> outdir/*.go, outdir/overlay.json, outdir/stats.json
package main

import (
	"encoding/json"
	"fmt"
	"os"
	"path/filepath"

	"verif/rewrite"
)

func main() {
	if len(os.Args) != 3 {
		fmt.Fprintln(os.Stderr, "usage: simrewrite <srcdir> <outdir>")
		os.Exit(2)
	}
	src, out := os.Args[1], os.Args[2]
	if err := os.MkdirAll(out, 0o755); err != nil {
		fmt.Fprintln(os.Stderr, err)
		os.Exit(2)
	}
	ov, st, err := rewrite.Dir(src, out)
	if err != nil {
		fmt.Fprintln(os.Stderr, "simrewrite:", err)
		os.Exit(2)
	}
	b, _ := json.MarshalIndent(map[string]any{"Replace": ov}, "", " ")
	_ = os.WriteFile(filepath.Join(out, "overlay.json"), b, 0o644)
	b, _ = json.MarshalIndent(st, "", " ")
	_ = os.WriteFile(filepath.Join(out, "stats.json"), b, 0o644)
	fmt.Println(string(b))
}
