package sim

import (
	"bufio"
	"encoding/json"
	"fmt"
	"os"
	"runtime"
	"testing"
	"time"

	"verif/simrt"
)

// Job is what the driver hands to a worker process.
type Job struct {
	Runs   []RunSpec  `json:"runs"`
	Out    string     `json:"out"`
	Shrink *ShrinkJob `json:"shrink,omitempty"`
}

func TestMain(m *testing.M) {
	// real-time watchdog: a run that makes no scheduling progress is an
	// infrastructure failure (exit 3), never a violation.
	go func() {
		last := simrt.Heartbeat.Load()
		idle := 0
		for {
			time.Sleep(time.Second)
			cur := simrt.Heartbeat.Load()
			if cur != last || !workerBusy.Load() {
				last, idle = cur, 0
				continue
			}
			idle++
			if idle >= 30 {
				buf := make([]byte, 1<<22)
				n := runtime.Stack(buf, true)
				fmt.Fprintf(os.Stderr, "WATCHDOG: no scheduling progress for %ds\n%s\n", idle, buf[:n])
				os.Exit(3)
			}
		}
	}()
	os.Exit(m.Run())
}

// TestWorker executes the job named by VERIF_JOB.
func TestWorker(t *testing.T) {
	path := os.Getenv("VERIF_JOB")
	if path == "" {
		t.Skip("no VERIF_JOB")
	}
	b, err := os.ReadFile(path)
	if err != nil {
		t.Fatal(err)
	}
	var job Job
	if err := json.Unmarshal(b, &job); err != nil {
		t.Fatal(err)
	}
	f, err := os.Create(job.Out)
	if err != nil {
		t.Fatal(err)
	}
	defer f.Close()
	bw := bufio.NewWriterSize(f, 1<<20)
	defer bw.Flush()
	enc := json.NewEncoder(bw)
	if job.Shrink != nil {
		res := RunShrink(t, job.Shrink)
		_ = enc.Encode(res)
		return
	}
	for _, rs := range job.Runs {
		// announce the run first so that a crash can be attributed
		fmt.Fprintf(bw, "{\"start\":{\"family\":%q,\"seed\":%d,\"run\":%d}}\n", rs.Family, rs.Seed, rs.Run)
		bw.Flush()
		workerBusy.Store(true)
		out := RunOne(t, rs)
		workerBusy.Store(false)
		if err := enc.Encode(out); err != nil {
			t.Fatal(err)
		}
		bw.Flush()
	}
}
