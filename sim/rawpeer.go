package sim

import (
	"context"
	"fmt"
	"io"
	"strconv"
	"unsafe"

	spb "google.golang.org/genproto/googleapis/rpc/status"
	"google.golang.org/grpc/metadata"
	"google.golang.org/protobuf/proto"
	"google.golang.org/protobuf/types/known/emptypb"
	"google.golang.org/protobuf/types/known/wrapperspb"

	"github.com/jhump/grpctunnel"
	"github.com/jhump/grpctunnel/tunnelpb"

	"verif/simrt"
)

// Scripted frame-level peers (DESIGN.md 2.5): a raw tunnel client against the
// real tunnel server, a raw tunnel server against the real tunnel client, in
// both network roles.

// RawClient speaks ClientToServer frames and records the ServerToClient frames
// it gets back.
type RawClient struct {
	W      *World
	Conn   *Conn
	send   func(*tunnelpb.ClientToServer) error
	recv   func() (*tunnelpb.ServerToClient, error)
	hangup func()

	Got     []*tunnelpb.ServerToClient
	GotSeq  []int64
	RecvErr error
	Ended   bool
	SendErr error
	key     byte
	Sent    int
}

// RawServer speaks ServerToClient frames and records ClientToServer frames.
type RawServer struct {
	W    *World
	Conn *Conn
	send func(*tunnelpb.ServerToClient) error
	recv func() (*tunnelpb.ClientToServer, error)

	Got     []*tunnelpb.ClientToServer
	GotSeq  []int64
	RecvErr error
	Ended   bool
	SendErr error
	key     byte
	ret     error // what the raw network server returns from its handler
	// the window this server announced in its settings (ServeConforming holds the client to it)
	Window        uint32
	HaveWindow    bool
	WindowOverrun string
}

//go:norace
func (rc *RawClient) reader() {
	for {
		m, err := rc.recv()
		if err != nil {
			rc.RecvErr = err
			rc.Ended = true
			simrt.Emit(simrt.Event{Kind: EvNote, S: "raw client: stream ended: " + err.Error()})
			simrt.Wake(unsafe.Pointer(&rc.key))
			return
		}
		rc.Got = append(rc.Got, m)
		rc.GotSeq = append(rc.GotSeq, simrt.Seq())
		simrt.Wake(unsafe.Pointer(&rc.key))
	}
}

// Send emits one frame; errors are remembered (a raw peer keeps going).
func (rc *RawClient) Send(f *tunnelpb.ClientToServer) error {
	simrt.Yield(simrt.ClassApp)
	err := rc.send(f)
	rc.Sent++
	if err != nil && rc.SendErr == nil {
		rc.SendErr = err
	}
	return err
}

// WaitFor blocks until pred holds, the stream ended, or the run stalled.
//
//go:norace
func (rc *RawClient) WaitFor(pred func() bool) bool {
	for !pred() {
		if rc.Ended {
			return pred()
		}
		if !simrt.WaitOrStall(unsafe.Pointer(&rc.key)) {
			return pred()
		}
	}
	return true
}

// FramesFor returns the frames received for a stream id.
//
//go:norace
func (rc *RawClient) FramesFor(id int64) []*tunnelpb.ServerToClient {
	var out []*tunnelpb.ServerToClient
	for _, m := range rc.Got {
		if m.StreamId == id {
			out = append(out, m)
		}
	}
	return out
}

// Closed reports whether a close_stream frame was received for id; it returns the status code.
//
//go:norace
func (rc *RawClient) Closed(id int64) (bool, int32, string) {
	for _, m := range rc.Got {
		if m.StreamId == id {
			if c, ok := m.Frame.(*tunnelpb.ServerToClient_CloseStream); ok {
				if c.CloseStream.GetStatus() == nil {
					return true, 0, ""
				}
				return true, c.CloseStream.Status.Code, c.CloseStream.Status.Message
			}
		}
	}
	return false, 0, ""
}

// HaveSettings reports whether a settings frame has been received.
//
//go:norace
func (rc *RawClient) HaveSettings() bool {
	for _, m := range rc.Got {
		if _, ok := m.Frame.(*tunnelpb.ServerToClient_Settings); ok {
			return true
		}
	}
	return false
}

// Hangup ends the raw client's side of the carrier stream.
func (rc *RawClient) Hangup() {
	if rc.hangup != nil {
		rc.hangup()
	}
}

// ---- frame builders --------------------------------------------------------------

func FNew(id int64, method string, rpc int, rev tunnelpb.ProtocolRevision, win uint32, md metadata.MD) *tunnelpb.ClientToServer {
	h := map[string]*tunnelpb.Metadata_Values{}
	for k, v := range md {
		h[k] = &tunnelpb.Metadata_Values{Val: v}
	}
	if rpc >= 0 {
		h["sim-rpc"] = &tunnelpb.Metadata_Values{Val: []string{strconv.Itoa(rpc)}}
	}
	return &tunnelpb.ClientToServer{StreamId: id, Frame: &tunnelpb.ClientToServer_NewStream{NewStream: &tunnelpb.NewStream{
		MethodName: method, RequestHeaders: &tunnelpb.Metadata{Md: h}, ProtocolRevision: rev, InitialWindowSize: win}}}
}

func FMsg(id int64, size uint32, data []byte) *tunnelpb.ClientToServer {
	return &tunnelpb.ClientToServer{StreamId: id, Frame: &tunnelpb.ClientToServer_RequestMessage{RequestMessage: &tunnelpb.MessageData{Size: size, Data: data}}}
}

func FMore(id int64, data []byte) *tunnelpb.ClientToServer {
	return &tunnelpb.ClientToServer{StreamId: id, Frame: &tunnelpb.ClientToServer_MoreRequestData{MoreRequestData: data}}
}

func FHalf(id int64) *tunnelpb.ClientToServer {
	return &tunnelpb.ClientToServer{StreamId: id, Frame: &tunnelpb.ClientToServer_HalfClose{HalfClose: &emptypb.Empty{}}}
}

func FCancelFrame(id int64) *tunnelpb.ClientToServer {
	return &tunnelpb.ClientToServer{StreamId: id, Frame: &tunnelpb.ClientToServer_Cancel{Cancel: &emptypb.Empty{}}}
}

func FWin(id int64, n uint32) *tunnelpb.ClientToServer {
	return &tunnelpb.ClientToServer{StreamId: id, Frame: &tunnelpb.ClientToServer_WindowUpdate{WindowUpdate: n}}
}

func FEmpty(id int64) *tunnelpb.ClientToServer { return &tunnelpb.ClientToServer{StreamId: id} }

// RequestBytes returns the serialised request message idx of an RPC.
func RequestBytes(rpc, idx, valueLen int) []byte {
	b, _ := proto.Marshal(bytesValue(MakePayload(rpc, 0, idx, valueLen)))
	return b
}

// ---- opening raw peers -------------------------------------------------------------

// RawCfg configures a raw-peer tunnel.
type RawCfg struct {
	Reverse     bool
	Negotiate   bool // the raw peer advertises negotiation
	DisableFC   bool // the real end disables flow control
	Carrier     CarrierCfg
	AwaitSettle bool
}

// OpenRawClient sets up a real tunnel server and a raw tunnel client talking to
// it, and runs script in its own goroutine. It returns once the script runs.
func (w *World) OpenRawClient(cfg RawCfg, script func(rc *RawClient)) (*RawClient, *Tunnel) {
	t := &Tunnel{W: w, Idx: len(w.Tunnels)}
	t.Name = fmt.Sprintf("t%d", t.Idx)
	w.Tunnels = append(w.Tunnels, t)
	t.Server = &TestServer{W: w, Name: t.Name}
	rc := &RawClient{W: w}
	meta := ConnMeta{Negotiated: cfg.Negotiate, FlowControl: cfg.Negotiate && !cfg.DisableFC, ClientRaw: true}
	ctx := w.RootCtx
	if cfg.Negotiate {
		ctx = metadata.AppendToOutgoingContext(ctx, "grpctunnel-negotiate", "on")
	}
	ctx = metadata.AppendToOutgoingContext(ctx, "sim-tunnel", fmt.Sprint(t.Idx))
	t.OpenCtx, t.OpenCancel = context.WithCancel(ctx)
	if !cfg.Reverse {
		h := grpctunnel.NewTunnelServiceHandler(grpctunnel.TunnelServiceHandlerOptions{NoReverseTunnels: true, DisableFlowControl: cfg.DisableFC})
		h.RegisterService(&TestDesc, t.Server)
		t.Handler = h
		car := &Carrier{W: w, Name: t.Name, Svc: h.Service(), Cfg: cfg.Carrier, PeerAddr: "peer-" + t.Name, Marker: "marker-" + t.Name, Meta: meta}
		t.Car = car
		stream, _ := car.OpenTunnel(t.OpenCtx)
		t.Conn = car.Conns[len(car.Conns)-1]
		rc.Conn = t.Conn
		rc.send, rc.recv = stream.Send, stream.Recv
		rc.hangup = func() { _ = stream.CloseSend() }
		simrt.Go("raw.reader", rc.reader)
		simrt.Go("raw.script", func() { script(rc) })
		return rc, t
	}
	// reverse: the real tunnel server is a ReverseTunnelServer on the network
	// client; the raw tunnel client is the network server
	car := &Carrier{W: w, Name: t.Name, Cfg: cfg.Carrier, PeerAddr: "peer-" + t.Name, Marker: "marker-" + t.Name, Meta: meta}
	t.Car = car
	scriptDone := make(chan struct{})
	car.RawServe = func(c *Conn) error {
		end := &revServerEnd{c}
		if cfg.Negotiate {
			_ = end.SendHeader(metadata.Pairs("grpctunnel-negotiate", "on"))
		} else {
			_ = end.SendHeader(metadata.MD{})
		}
		rc.Conn = c
		t.Conn = c
		rc.send, rc.recv = end.Send, end.Recv
		hung := make(chan struct{})
		rc.hangup = func() {
			select {
			case <-hung:
			default:
				close(hung)
			}
		}
		simrt.Go("raw.reader", rc.reader)
		script(rc)
		close(scriptDone)
		// the network server's handler returns when the raw client hangs up
		select {
		case <-hung:
		case <-c.srvCtx.Done():
		}
		simrt.Yield(simrt.ClassWake)
		return nil
	}
	var opts []grpctunnel.TunnelOption
	if cfg.DisableFC {
		opts = append(opts, grpctunnel.WithDisableFlowControl())
	}
	rs := grpctunnel.NewReverseTunnelServer(car, opts...)
	rs.RegisterService(&TestDesc, t.Server)
	t.RevServer = rs
	simrt.Go("topology.serve", func() {
		simrt.Emit(simrt.Event{Kind: EvTunnel, S: "serve-start", A: int64(t.Idx)})
		started, err := rs.Serve(t.OpenCtx)
		t.ServeStarted, t.ServeErr, t.ServeReturned = started, err, true
		simrt.Emit(simrt.Event{Kind: EvTunnel, S: "serve-return", A: int64(t.Idx), B: b2i(started), S2: errString(err), P: err})
	})
	return rc, t
}

// OpenRawServer sets up a raw tunnel server and the real tunnel client facing
// it. script runs as the raw server. For a forward tunnel the call blocks in
// Start like a real application would; the channel (or error) is in the Tunnel.
func (w *World) OpenRawServer(cfg RawCfg, script func(rs *RawServer)) (*RawServer, *Tunnel, error) {
	t := &Tunnel{W: w, Idx: len(w.Tunnels)}
	t.Name = fmt.Sprintf("t%d", t.Idx)
	w.Tunnels = append(w.Tunnels, t)
	rs := &RawServer{W: w}
	meta := ConnMeta{Negotiated: cfg.Negotiate, FlowControl: cfg.Negotiate && !cfg.DisableFC, ServerRaw: true}
	ctx := metadata.AppendToOutgoingContext(w.RootCtx, "sim-tunnel", fmt.Sprint(t.Idx))
	if w.nextOpenDeadline > 0 {
		t.OpenCtx, t.OpenCancel = context.WithTimeout(ctx, w.nextOpenDeadline)
	} else {
		t.OpenCtx, t.OpenCancel = context.WithCancel(ctx)
	}
	reader := func() {
		for {
			m, err := rs.recv()
			if err != nil {
				rs.RecvErr, rs.Ended = err, true
				simrt.Emit(simrt.Event{Kind: EvNote, S: "raw server: stream ended: " + err.Error()})
				simrt.Wake(unsafe.Pointer(&rs.key))
				return
			}
			rs.Got = append(rs.Got, m)
			rs.GotSeq = append(rs.GotSeq, simrt.Seq())
			simrt.Wake(unsafe.Pointer(&rs.key))
		}
	}
	if !cfg.Reverse {
		car := &Carrier{W: w, Name: t.Name, Cfg: cfg.Carrier, PeerAddr: "peer-" + t.Name, Marker: "marker-" + t.Name, Meta: meta}
		t.Car = car
		car.RawServe = func(c *Conn) error {
			end := &fwdServerEnd{c}
			if cfg.Negotiate {
				_ = end.SendHeader(metadata.Pairs("grpctunnel-negotiate", "on"))
			} else {
				_ = end.SendHeader(metadata.MD{})
			}
			rs.Conn = c
			t.Conn = c
			rs.send, rs.recv = end.Send, end.Recv
			simrt.Go("raw.reader", reader)
			script(rs)
			return rs.ret
		}
		var opts []grpctunnel.TunnelOption
		if cfg.DisableFC {
			opts = append(opts, grpctunnel.WithDisableFlowControl())
		}
		simrt.Emit(simrt.Event{Kind: EvTunnel, S: "chan-start", A: int64(t.Idx)})
		ch, err := grpctunnel.NewChannel(car, opts...).Start(t.OpenCtx)
		if err != nil {
			simrt.Emit(simrt.Event{Kind: EvTunnel, S: "chan-start-failed", A: int64(t.Idx), S2: err.Error()})
			return rs, t, err
		}
		t.Chan = ch
		simrt.Emit(simrt.Event{Kind: EvTunnel, S: "chan-started", A: int64(t.Idx)})
		return rs, t, nil
	}
	// reverse: the real tunnel client is the handler on the network server;
	// the raw tunnel server is the network client
	ho := w.handlerOpts(t, FCBoth)
	ho.DisableFlowControl = cfg.DisableFC
	h := grpctunnel.NewTunnelServiceHandler(ho)
	t.Handler = h
	car := &Carrier{W: w, Name: t.Name, Svc: h.Service(), Cfg: cfg.Carrier, PeerAddr: "peer-" + t.Name, Marker: "marker-" + t.Name, Meta: meta}
	t.Car = car
	octx := t.OpenCtx
	if cfg.Negotiate {
		octx = metadata.AppendToOutgoingContext(octx, "grpctunnel-negotiate", "on")
	}
	stream, _ := car.OpenReverseTunnel(octx)
	t.Conn = car.Conns[len(car.Conns)-1]
	rs.Conn = t.Conn
	rs.send, rs.recv = stream.Send, stream.Recv
	simrt.Go("raw.reader", reader)
	simrt.Go("raw.script", func() {
		script(rs)
		_ = stream.CloseSend()
	})
	return rs, t, nil
}

// Send emits one frame.
func (rs *RawServer) Send(f *tunnelpb.ServerToClient) error {
	simrt.Yield(simrt.ClassApp)
	err := rs.send(f)
	if err != nil && rs.SendErr == nil {
		rs.SendErr = err
	}
	return err
}

// WaitFor blocks until pred holds, the stream ended, or the run stalled.
//
//go:norace
func (rs *RawServer) WaitFor(pred func() bool) bool {
	for !pred() {
		if rs.Ended {
			return pred()
		}
		if !simrt.WaitOrStall(unsafe.Pointer(&rs.key)) {
			return pred()
		}
	}
	return true
}

// WaitNew blocks (without regard to stalls) until pred holds or the stream ended.
//
//go:norace
func (rs *RawServer) WaitNew(pred func() bool) {
	for !pred() && !rs.Ended {
		simrt.BlockOn(unsafe.Pointer(&rs.key))
	}
}

// NewStreams returns the new_stream frames received so far.
//
//go:norace
func (rs *RawServer) NewStreams() []*tunnelpb.ClientToServer {
	var out []*tunnelpb.ClientToServer
	for _, m := range rs.Got {
		if _, ok := m.Frame.(*tunnelpb.ClientToServer_NewStream); ok {
			out = append(out, m)
		}
	}
	return out
}

// HalfClosed reports whether a half_close (or cancel) was received for id.
//
//go:norace
func (rs *RawServer) HalfClosed(id int64) bool {
	for _, m := range rs.Got {
		if m.StreamId != id {
			continue
		}
		switch m.Frame.(type) {
		case *tunnelpb.ClientToServer_HalfClose, *tunnelpb.ClientToServer_Cancel:
			return true
		}
	}
	return false
}

func SSettings(id int64, win uint32, revs ...tunnelpb.ProtocolRevision) *tunnelpb.ServerToClient {
	return &tunnelpb.ServerToClient{StreamId: id, Frame: &tunnelpb.ServerToClient_Settings{Settings: &tunnelpb.Settings{InitialWindowSize: win, SupportedProtocolRevisions: revs}}}
}

func SHeaders(id int64, md metadata.MD) *tunnelpb.ServerToClient {
	h := map[string]*tunnelpb.Metadata_Values{}
	for k, v := range md {
		h[k] = &tunnelpb.Metadata_Values{Val: v}
	}
	return &tunnelpb.ServerToClient{StreamId: id, Frame: &tunnelpb.ServerToClient_ResponseHeaders{ResponseHeaders: &tunnelpb.Metadata{Md: h}}}
}

func SMsg(id int64, size uint32, data []byte) *tunnelpb.ServerToClient {
	return &tunnelpb.ServerToClient{StreamId: id, Frame: &tunnelpb.ServerToClient_ResponseMessage{ResponseMessage: &tunnelpb.MessageData{Size: size, Data: data}}}
}

func SMore(id int64, data []byte) *tunnelpb.ServerToClient {
	return &tunnelpb.ServerToClient{StreamId: id, Frame: &tunnelpb.ServerToClient_MoreResponseData{MoreResponseData: data}}
}

func SClose(id int64, code int32, msg string) *tunnelpb.ServerToClient {
	cs := &tunnelpb.CloseStream{}
	if code != 0 || msg != "" {
		cs.Status = statusProto(code, msg)
	}
	return &tunnelpb.ServerToClient{StreamId: id, Frame: &tunnelpb.ServerToClient_CloseStream{CloseStream: cs}}
}

func SWin(id int64, n uint32) *tunnelpb.ServerToClient {
	return &tunnelpb.ServerToClient{StreamId: id, Frame: &tunnelpb.ServerToClient_WindowUpdate{WindowUpdate: n}}
}

func SEmpty(id int64) *tunnelpb.ServerToClient { return &tunnelpb.ServerToClient{StreamId: id} }

// ResponseBytes returns the serialised response message idx of an RPC.
func ResponseBytes(rpc, idx, valueLen int) []byte {
	b, _ := proto.Marshal(bytesValue(MakePayload(rpc, 1, idx, valueLen)))
	return b
}

var _ = io.EOF

func bytesValue(b []byte) *wrapperspb.BytesValue { return &wrapperspb.BytesValue{Value: b} }

func statusProto(code int32, msg string) *spb.Status { return &spb.Status{Code: code, Message: msg} }

// SendMessage sends one serialised message as an envelope plus continuation
// frames of at most chunk bytes.
func (rc *RawClient) SendMessage(id int64, b []byte, chunk int) {
	if chunk <= 0 {
		chunk = 16384
	}
	n := len(b)
	first := n
	if first > chunk {
		first = chunk
	}
	rc.Send(FMsg(id, uint32(n), b[:first]))
	for off := first; off < n; off += chunk {
		end := off + chunk
		if end > n {
			end = n
		}
		rc.Send(FMore(id, b[off:end]))
	}
}

// SendMessage likewise for the raw server.
func (rs *RawServer) SendMessage(id int64, b []byte, chunk int) {
	if chunk <= 0 {
		chunk = 16384
	}
	n := len(b)
	first := n
	if first > chunk {
		first = chunk
	}
	rs.Send(SMsg(id, uint32(n), b[:first]))
	for off := first; off < n; off += chunk {
		end := off + chunk
		if end > n {
			end = n
		}
		rs.Send(SMore(id, b[off:end]))
	}
}

// ServeConforming makes the raw server behave like a conforming tunnel server
// for every stream it is sent: it grants credit for request data it receives
// (revision one streams only) and, once a stream is half-closed, answers with
// headers, the planned response messages and an OK close. onStream, if set,
// sees each new_stream frame first.
//
//go:norace
func (rs *RawServer) ServeConforming(w *World, onStream func(sid int64, ns *tunnelpb.NewStream)) {
	served := map[int64]bool{}
	revOne := map[int64]bool{}
	// un-credited request bytes per stream, assuming every credit this server
	// grants takes effect at once (a lower bound of what is really
	// outstanding, so a conforming client never exceeds the announced window)
	out := map[int64]int64{}
	data := func(sid int64, n int) {
		if !revOne[sid] || !rs.HaveWindow {
			return
		}
		out[sid] += int64(n)
		if out[sid] > int64(rs.Window) && rs.WindowOverrun == "" {
			rs.WindowOverrun = fmt.Sprintf("stream %d: a data frame of %d bytes arrived with %d bytes un-credited; the settings announced a window of %d", sid, n, out[sid]-int64(n), rs.Window)
		}
		out[sid] -= int64(n) // credited right away, below
	}
	seen := 0
	for !rs.Ended {
		rs.WaitNew(func() bool { return len(rs.Got) > seen })
		for ; seen < len(rs.Got); seen++ {
			m := rs.Got[seen]
			switch f := m.Frame.(type) {
			case *tunnelpb.ClientToServer_NewStream:
				revOne[m.StreamId] = f.NewStream.ProtocolRevision == tunnelpb.ProtocolRevision_REVISION_ONE
				if onStream != nil {
					onStream(m.StreamId, f.NewStream)
				}
			case *tunnelpb.ClientToServer_RequestMessage:
				data(m.StreamId, len(f.RequestMessage.Data))
				if revOne[m.StreamId] && len(f.RequestMessage.Data) > 0 {
					rs.Send(SWin(m.StreamId, uint32(len(f.RequestMessage.Data))))
				}
			case *tunnelpb.ClientToServer_MoreRequestData:
				data(m.StreamId, len(f.MoreRequestData))
				if revOne[m.StreamId] && len(f.MoreRequestData) > 0 {
					rs.Send(SWin(m.StreamId, uint32(len(f.MoreRequestData))))
				}
			}
		}
		for _, ns := range rs.NewStreams() {
			sid := ns.StreamId
			if served[sid] || !rs.HalfClosed(sid) {
				continue
			}
			served[sid] = true
			nsf := ns.Frame.(*tunnelpb.ClientToServer_NewStream).NewStream
			rpc := 0
			if v := nsf.RequestHeaders.GetMd()["sim-rpc"]; v != nil && len(v.Val) > 0 {
				fmt.Sscanf(v.Val[0], "%d", &rpc)
			}
			pl := w.Plans[rpc]
			rs.Send(SHeaders(sid, nil))
			if pl != nil {
				for i := range pl.RespSizes {
					rs.SendMessage(sid, ResponseBytes(rpc, i, pl.respSize(i)), 0)
				}
			}
			rs.Send(SClose(sid, 0, ""))
		}
	}
}
