package sim

import (
	"fmt"
	"io"
	"sort"
	"strconv"
	"strings"
	"unicode/utf8"

	spb "google.golang.org/genproto/googleapis/rpc/status"
	"google.golang.org/grpc/codes"
	"google.golang.org/grpc/metadata"
	"google.golang.org/grpc/status"
	"google.golang.org/protobuf/proto"
	"google.golang.org/protobuf/types/known/anypb"

	"verif/simrt"
)

// Family meta (C02): status, headers, trailers and request metadata.

func init() {
	register(&Family{
		Name:    "meta",
		Run:     runMeta,
		Oracles: []func(*World, *History){OracleC02, OracleC01, OracleLeak},
		Nontrivial: func(w *World, h *History) bool {
			return h.Derived["probe.meta_checked"] > 0
		},
	})
}

func genStatusFull(c *Chooser) *spb.Status {
	code := c.Intn(17, "code")
	if code == 0 {
		return nil
	}
	msgs := []string{"", "boom", "héllo wörld ✓ 日本", "x", string(make([]byte, 0))}
	st := &spb.Status{Code: int32(code), Message: msgs[c.Intn(len(msgs), "stmsg")]}
	if c.Intn(8, "stlong") == 0 {
		b := make([]byte, 4096)
		for i := range b {
			b[i] = byte('a' + i%26)
		}
		st.Message = string(b)
	}
	nd := c.Intn(4, "stdet")
	for i := 0; i < nd; i++ {
		val := make([]byte, c.Intn(40, "stdetlen"))
		for j := range val {
			val[j] = byte(c.Intn(256, "stdetb"))
		}
		st.Details = append(st.Details, &anypb.Any{TypeUrl: fmt.Sprintf("type.sim/detail%d", i), Value: val})
	}
	return st
}

func runMeta(w *World, rs *RunSpec) {
	c := w.C
	cfg := drawTunnelCfg(c, false)
	// metadata behaviour does not depend on carrier latency; keep runs short
	cfg.Carrier.LatC2S, cfg.Carrier.LatS2C = 0, 0
	describeTunnel(w, cfg)
	t, err := w.OpenTunnel(cfg)
	if err != nil {
		w.Violate("C11", "shape-failed", "tunnel could not be established in a workable configuration: "+err.Error(),
			map[string]string{"topology": topoNames[cfg.Topo], "fc": fcNames[cfg.FC]})
		return
	}
	n := 1 + c.Intn(4, "nrpc")
	// 0: no -bin keys; 1,2: -bin keys with UTF-8-safe bytes; 3: arbitrary bytes
	// (non-UTF-8). Runs with and without non-UTF-8 values are separate
	// configurations (param nonutf8) so that the known finding about
	// unencodable values cannot hide an ordinary bug.
	binOK := c.Intn(3, "binmode")
	if rs.P("nonutf8", 0) == 1 {
		binOK = 3
	}
	w.Desc["bin_mode"] = binOK
	var plans []*RPCPlan
	var descs []any
	for i := 0; i < n; i++ {
		p := GenPlan(c, i, GenOpts{MaxMsgs: 3, SmallOnly: true, NoMD: true})
		p.Tunnel = t.Idx
		genMetaPlan(c, p, binOK)
		if i == 0 && rs.P("bare", 0) == 1 {
			// "no metadata at all": nothing in the outgoing context, no
			// credentials (one such RPC per run; variant selected by a
			// parameter, not a draw, so that older replays keep their meaning)
			p.Bare, p.NoOutgoingMD, p.ReqMD, p.Creds = true, true, nil, nil
		}
		plans = append(plans, p)
		d := planDesc(p)
		d["bare"] = p.Bare
		d["handler"] = opsDesc(p.Handler)
		d["caller_recv"] = opsDesc(p.CallerRecv)
		d["req_md"] = p.ReqMD
		if p.Creds != nil {
			d["creds"] = fmt.Sprintf("md=%v secure=%v", p.Creds.MD, p.Creds.Secure)
			if p.Creds2 != nil {
				d["creds2"] = fmt.Sprintf("md=%v", p.Creds2.MD)
			}
		}
		d["no_outgoing_md"] = p.NoOutgoingMD
		descs = append(descs, d)
	}
	w.Desc["rpcs"] = descs
	cs := w.StartCallers(plans)
	if !cs.Wait() {
		// stalled: handlers parked at a gate are the expected cause
		simrt.Emit(simrt.Event{Kind: EvCheckpoint, S: "stalled-gates-opened"})
		for _, p := range plans {
			w.OpenGate(500 + p.ID)
		}
		cs.Wait()
	}
	w.DrainAndProbe()
	w.FullShutdown()
}

func opsDesc(ops []Op) []string {
	var out []string
	for _, o := range ops {
		s := opNames[o.Kind]
		switch o.Kind {
		case OpSend:
			s += "[" + strconv.Itoa(o.N) + "]"
		case OpSetHeader, OpSendHeader, OpSetTrailer:
			s += fmt.Sprint(o.MD)
		case OpReturn:
			if o.St != nil {
				s += fmt.Sprintf("(code=%d msg=%q details=%d)", o.St.Code, trim(o.St.Message, 30), len(o.St.Details))
			}
		}
		out = append(out, s)
	}
	return out
}

func trim(s string, n int) string {
	if len(s) > n {
		return s[:n] + "..."
	}
	return s
}

func genMDMode(c *Chooser, maxKeys, binMode int) metadata.MD {
	switch c.Intn(6, "mdkind") {
	case 0:
		return nil
	case 1:
		return metadata.MD{}
	}
	md := GenMD(c, maxKeys, binMode > 0)
	if binMode > 0 && binMode < 3 {
		// keep -bin values valid UTF-8 in these modes
		for k, vs := range md {
			for i, v := range vs {
				b := []byte(v)
				for j := range b {
					b[j] &= 0x7f
				}
				md[k][i] = string(b)
			}
		}
	}
	return md
}

func genMetaPlan(c *Chooser, p *RPCPlan, binMode int) {
	// handler: base ops with header / trailer ops inserted, ending in Return(status)
	p.HandlerSend = nil
	var base []Op
	switch p.Shape {
	case ShapeUnary:
		base = []Op{{Kind: OpRecv}, {Kind: OpSend, N: 0}}
	case ShapeClientStream:
		base = []Op{{Kind: OpRecvAll}, {Kind: OpSend, N: 0}}
	case ShapeServerStream:
		base = []Op{{Kind: OpRecv}}
		for i := range p.RespSizes {
			base = append(base, Op{Kind: OpSend, N: i})
		}
	case ShapeBidi:
		base = []Op{{Kind: OpRecvAll}}
		for i := range p.RespSizes {
			base = append(base, Op{Kind: OpSend, N: i})
		}
	}
	nmeta := c.Intn(5, "nmetaops")
	ops := base
	for i := 0; i < nmeta; i++ {
		kind := Pick(c, "metaop", OpSetHeader, OpSetTrailer, OpSendHeader, OpSetHeader, OpSetTrailer)
		at := c.Intn(len(ops)+1, "metaat")
		op := Op{Kind: kind, MD: genMDMode(c, 3, binMode)}
		ops = append(ops[:at], append([]Op{op}, ops[at:]...)...)
	}
	// now and then (by plan id) a header or trailer value larger than a frame
	// of message data may be: metadata frames are not chunked, and must arrive
	if p.ID%5 == 2 {
		for i := range ops {
			if (ops[i].Kind == OpSetHeader || ops[i].Kind == OpSetTrailer) && ops[i].MD != nil {
				ops[i].MD["sim-large"] = []string{strings.Repeat("L", 20000+p.ID)}
				break
			}
		}
	}
	// repeated SetHeader / SetTrailer calls often mention the same key again:
	// the values accumulate in call order (no draw: the second call of a kind
	// takes over one key of the first)
	for _, kind := range []int{OpSetHeader, OpSetTrailer} {
		var first metadata.MD
		for i := range ops {
			if ops[i].Kind != kind && !(kind == OpSetHeader && ops[i].Kind == OpSendHeader) {
				continue
			}
			if first == nil {
				if len(ops[i].MD) > 0 {
					first = ops[i].MD
				}
				continue
			}
			if ops[i].MD == nil {
				ops[i].MD = metadata.MD{}
			}
			var keys []string
			for k := range first {
				keys = append(keys, k)
			}
			sort.Strings(keys)
			for _, k := range keys {
				if !strings.HasSuffix(k, "-bin") || binMode > 0 {
					ops[i].MD[k] = append([]string{"again"}, ops[i].MD[k]...)
					break
				}
			}
			break
		}
	}
	st := genStatusFull(c)
	if st != nil && c.Intn(2, "failearly") == 0 {
		// an error status: stop somewhere before the end
		at := c.Intn(len(ops)+1, "failat")
		ops = ops[:at]
	}
	ops = append(ops, Op{Kind: OpReturn, St: st})
	p.Handler = ops

	// a request larger than the flow-control window whose handler fails without
	// reading it: the caller is blocked in its send when the RPC is finished
	if (p.Shape == ShapeUnary || p.Shape == ShapeClientStream) && st != nil && c.Intn(8, "bigreject") == 7 {
		p.ReqSizes = []int{70000 + c.Intn(60000, "bigrejectsz")}
		p.Handler = []Op{{Kind: OpReturn, St: st}}
		if p.Shape == ShapeClientStream {
			p.CallerSend = []Op{{Kind: OpSendAll}, {Kind: OpCloseSend}}
		}
	}
	// request metadata
	switch c.Intn(5, "reqmdkind") {
	case 0:
	case 1, 2:
		p.ReqMD = genMDMode(c, 4, binMode)
	case 3: // credentials on top of outgoing metadata
		p.ReqMD = genMDMode(c, 3, binMode)
		p.Creds = &SimCreds{MD: map[string]string{"cred-a": "1", "cred-b": fmt.Sprintf("v%d", c.Intn(100, "credv"))}}
		if p.ID%2 == 0 {
			// a credential key spelled with capitals that the outgoing
			// metadata also carries: keys are case-insensitive, the handler
			// sees one lower-case key with both values
			if p.ReqMD == nil {
				p.ReqMD = metadata.MD{}
			}
			p.ReqMD.Append("sim-mixed", "from-context")
			p.Creds.MD["Sim-Mixed"] = "from-credentials"
		}
	case 4: // credentials and no outgoing metadata at all
		p.NoOutgoingMD = true
		p.Creds = &SimCreds{MD: map[string]string{"sim-rpc": strconv.Itoa(p.ID), "cred-a": "1"}}
	}
	if p.Creds != nil && c.Intn(6, "credsecure") == 0 {
		p.Creds.Secure = true
	}
	if p.Creds != nil && p.ID%2 == 1 {
		// two credentials options on one call, one key in common
		p.Creds2 = &SimCreds{MD: map[string]string{"cred-a": "2", "cred-second": "s" + strconv.Itoa(p.ID), "sim-rpc": strconv.Itoa(p.ID)}}
	}
	p.OptHeader = c.Intn(2, "opthdr") == 1
	p.OptTrailer = c.Intn(2, "opttlr") == 1
	p.OptPeer = c.Intn(3, "optpeer") == 2
	p.OptChannel = c.Intn(3, "optchan") == 2

	// "headers no later than the first message" variant: the handler parks
	// right after its first message; the caller reads one message, then Header()
	if shapeServerStreams(p.Shape) && len(p.RespSizes) > 0 && c.Intn(4, "hdrlate") == 3 {
		var ops []Op
		done := false
		for _, o := range p.Handler {
			ops = append(ops, o)
			if o.Kind == OpSend && !done {
				ops = append(ops, Op{Kind: OpPause, N: 500 + p.ID})
				done = true
			}
		}
		if done {
			p.Handler = ops
			p.CallerRecv = []Op{{Kind: OpRecv}, {Kind: OpHeader}, {Kind: OpRecvAll}, {Kind: OpTrailer}}
			p.pausedHandler = true
			return
		}
	}
	// caller receive-side script
	if p.Shape != ShapeUnary {
		var r []Op
		switch c.Intn(5, "crscript") {
		case 0:
			r = []Op{{Kind: OpRecvAll}, {Kind: OpTrailer}}
		case 1:
			r = []Op{{Kind: OpHeader}, {Kind: OpRecvAll}, {Kind: OpTrailer}}
		case 2:
			r = []Op{{Kind: OpRecv}, {Kind: OpHeader}, {Kind: OpRecvAll}, {Kind: OpTrailer}}
		case 3:
			r = []Op{{Kind: OpRecvAll}, {Kind: OpRecv}, {Kind: OpTrailer}, {Kind: OpHeader}, {Kind: OpReadTargets}}
		case 4:
			r = []Op{{Kind: OpRecvAll}, {Kind: OpReadTargets}, {Kind: OpHeader}}
		}
		p.CallerRecv = r
	}
}

// ---- oracle C02 ------------------------------------------------------------------

func mdEqual(a, b metadata.MD) bool {
	if a.Len() == 0 && b.Len() == 0 {
		return true
	}
	if len(a) != len(b) {
		return false
	}
	for k, va := range a {
		vb, ok := b[k]
		if !ok || len(va) != len(vb) {
			return false
		}
		for i := range va {
			if va[i] != vb[i] {
				return false
			}
		}
	}
	return true
}

func mdString(md metadata.MD) string {
	if md == nil {
		return "nil"
	}
	ks := make([]string, 0, len(md))
	for k := range md {
		ks = append(ks, k)
	}
	sort.Strings(ks)
	s := "{"
	for _, k := range ks {
		s += fmt.Sprintf("%s:%q ", k, md[k])
	}
	return s + "}"
}

func hasNonUTF8(mds ...metadata.MD) bool {
	for _, md := range mds {
		for _, vs := range md {
			for _, v := range vs {
				if !validUTF8(v) {
					return true
				}
			}
		}
	}
	return false
}

func validUTF8(s string) bool { return utf8.ValidString(s) }

// OracleC02 compares what the caller observed with a reference model of the
// gRPC metadata / status contract applied to what the handler did.
// oracleUnidentified: every caller of these families says which RPC it is, in
// its outgoing metadata or through its credentials (the one bare RPC of a run
// excepted); a handler that cannot tell has lost request metadata.
func oracleUnidentified(w *World, h *History, prop string, nonUTF8 bool) {
	r := h.RPCs[-1]
	if r == nil {
		return
	}
	utf := "utf8"
	if nonUTF8 {
		utf = "non-utf8-in-run"
	}
	for _, hr := range r.Handlers {
		got := "?"
		if hr.Info != nil {
			got = mdString(hr.Info.ReqMD)
		}
		w.AddViolation(prop, "request-md-mismatch", fmt.Sprintf("a %s handler saw request metadata %s: the key by which every caller of this run identifies its RPC (set in the outgoing context or by its credentials) is missing", hr.Method, got),
			map[string]string{"what": "unidentified-rpc", "values": utf}, hr.Start)
	}
}

func OracleC02(w *World, h *History) {
	// Non-UTF-8 metadata anywhere in the run: the carrier frame that holds it is
	// unencodable, which ends the whole tunnel (known finding D4), so every RPC
	// of such a run is tagged.
	runNonUTF8 := false
	for _, p := range w.Plans {
		mds := []metadata.MD{p.ReqMD}
		for _, o := range p.Handler {
			mds = append(mds, o.MD)
		}
		if hasNonUTF8(mds...) {
			runNonUTF8 = true
		}
	}
	stallMark := int64(0)
	for _, e := range h.Evs {
		if e.Kind == EvCheckpoint && e.S == "stalled-gates-opened" && stallMark == 0 {
			stallMark = e.Seq
		}
	}
	oracleUnidentified(w, h, "C02", runNonUTF8)
	for _, id := range h.RPCIDs {
		r := h.RPCs[id]
		p := r.Plan
		if p == nil || len(r.Handlers) != 1 {
			if p != nil && p.Creds != nil && p.Creds.Secure {
				// per-RPC credentials requiring transport security on an insecure
				// tunnel: the call must fail at start, and no handler may run
				if len(r.Handlers) > 0 {
					w.AddViolation("C02", "request-md-mismatch", fmt.Sprintf("rpc %d: credentials require transport security on an insecure channel, but the call reached a handler", id), nil, 0)
				}
			}
			continue
		}
		hr := r.Handlers[0]
		if hr.End == 0 {
			continue
		}
		// did anything other than the handler's own return end the RPC?
		disturbed := hr.CtxDoneAtEnd
		hasCancel := p.Deadline > 0
		for _, o := range r.Ops {
			if o.Op == OpCancel {
				hasCancel = true
			}
		}
		if hasCancel {
			// a cancellation that lost the race against normal completion leaves a
			// normal outcome, which must then be complete (C07: never a mixture)
			t0 := r.Terminal()
			if t0 == nil || !(t0.Res.Err == nil || (t0.Op == OpRecv && t0.Res.Err == io.EOF)) {
				disturbed = true
			}
		}
		if disturbed {
			continue
		}
		h.Derived["probe.meta_checked"]++
		det := func(extra ...string) map[string]string {
			d := map[string]string{"shape": shapeNames[p.Shape]}
			for i := 0; i+1 < len(extra); i += 2 {
				d[extra[i]] = extra[i+1]
			}
			return d
		}
		utf := "utf8"
		if runNonUTF8 {
			utf = "non-utf8-in-run"
			h.Derived["probe.meta_non_utf8"]++
		}
		// ---- reference model over the handler's operations
		var expHdr, expTlr metadata.MD
		sent := false
		nonUTF8 := false
		for _, o := range r.Ops {
			if o.Actor != "h" || !o.Returned() {
				continue
			}
			switch o.Op {
			case OpSetHeader, OpSendHeader:
				if o.Op == OpSetHeader && o.Res.MD.Len() == 0 {
					continue // grpc.SetHeader returns nil for empty metadata without consulting the stream
				}
				if sent {
					if o.Res.Err == nil {
						w.AddViolation("C02", "header-mismatch", fmt.Sprintf("rpc %d: %s after the headers had been sent was accepted", id, opNames[o.Op]), det("what", "set-after-sent", "values", utf), o.Ret)
					}
					continue
				}
				if o.Res.Err != nil {
					w.AddViolation("C02", "header-mismatch", fmt.Sprintf("rpc %d: %s before headers were sent failed: %v", id, opNames[o.Op], o.Res.Err), det("what", "set-failed", "values", utf), o.Ret)
					continue
				}
				expHdr = metadata.Join(expHdr, o.Res.MD)
				if o.Op == OpSendHeader {
					sent = true
				}
			case OpSend:
				if p.Shape != ShapeUnary {
					sent = true
				}
			case OpSetTrailer:
				expTlr = metadata.Join(expTlr, o.Res.MD)
			}
		}
		_ = nonUTF8
		if len(expTlr) > 0 {
			h.Derived["probe.trailers_set"]++
		}
		var expSt *spb.Status
		if hr.Err != nil {
			expSt = status.Convert(hr.Err).Proto()
		}

		// ---- request metadata as seen by the handler
		if hr.Info != nil {
			exp := metadata.MD{}
			if !p.NoOutgoingMD && !p.Bare {
				for k, v := range p.ReqMD {
					exp[k] = append([]string(nil), v...)
				}
				exp.Set("sim-rpc", strconv.Itoa(p.ID))
			}
			appendCredsExp(exp, p)
			if !mdEqual(exp, hr.Info.ReqMD) {
				w.AddViolation("C02", "request-md-mismatch", fmt.Sprintf("rpc %d: handler saw request metadata %s, caller attached %s", id, mdString(hr.Info.ReqMD), mdString(exp)),
					det("values", utf), hr.Start)
			}
		}

		// headers are available no later than the first response message: a
		// Header() call made after the first message was returned must complete
		// although the handler is parked (no further frame can arrive) - the
		// director only opens the handler's gate once the run has stalled
		if stallMark != 0 {
			first := firstRecvOK(r)
			for _, o := range r.OpsOf(OpHeader, "cr") {
				if first != nil && o.Inv > first.Ret && o.Inv < stallMark && (o.Ret == 0 || o.Ret > stallMark) {
					w.AddViolation("C02", "header-late", fmt.Sprintf("rpc %d: Header() invoked after the first response message had been returned blocked until further frames arrived", id), det("values", utf), o.Inv)
				}
			}
		}
		// ---- the caller's terminal result
		term := r.Terminal()
		if term == nil {
			w.AddViolation("C02", "status-mismatch", fmt.Sprintf("rpc %d: the handler returned (%v) but the caller never obtained a terminal result", id, hr.Err), det("what", "no-terminal", "values", utf), hr.End)
			continue
		}
		var gotSt *spb.Status
		if term.Res.Err != nil && term.Res.Err != io.EOF {
			gotSt = status.Convert(term.Res.Err).Proto()
		}
		if !statusEqual(expSt, gotSt) {
			w.AddViolation("C02", "status-mismatch", fmt.Sprintf("rpc %d: handler returned %s, caller got %s", id, stString(expSt), stString(gotSt)), det("values", utf), term.Ret)
		}
		// stable under repeated Recv
		for _, o := range r.OpsOf(OpRecv, "cr") {
			if o.Inv > term.Ret && o.Returned() {
				var again *spb.Status
				if o.Res.Err != nil && o.Res.Err != io.EOF {
					again = status.Convert(o.Res.Err).Proto()
				}
				if o.Res.Err == nil || !statusEqual(gotSt, again) {
					w.AddViolation("C02", "result-not-stable", fmt.Sprintf("rpc %d: Recv after the terminal result returned %v (first: %v)", id, o.Res.Err, term.Res.Err), det(), o.Ret)
				}
			}
		}
		// trailers immediately after the terminal result
		if ex := term.Res.Extra; ex != nil {
			if tr, ok := ex["trailer"].(metadata.MD); ok || p.Shape != ShapeUnary {
				if !mdEqual(tr, expTlr) {
					kind := "trailer-mismatch"
					if tr.Len() == 0 {
						kind = "trailer-missing-after-terminal"
					}
					w.AddViolation("C02", kind, fmt.Sprintf("rpc %d: Trailer() right after the terminal result = %s, handler set %s", id, mdString(tr), mdString(expTlr)), det("via", "Trailer()", "values", utf), term.Ret)
				}
			}
			if p.OptTrailer {
				tt, _ := ex["tlr_target"].(metadata.MD)
				if !mdEqual(tt, expTlr) {
					kind := "trailer-mismatch"
					if tt.Len() == 0 {
						kind = "trailer-missing-after-terminal"
					}
					w.AddViolation("C02", kind, fmt.Sprintf("rpc %d: grpc.Trailer target right after the terminal result = %s, handler set %s", id, mdString(tt), mdString(expTlr)), det("via", "grpc.Trailer", "values", utf), term.Ret)
				}
			}
			if p.OptHeader {
				ht, _ := ex["hdr_target"].(metadata.MD)
				if !mdEqual(ht, expHdr) {
					w.AddViolation("C02", "header-mismatch", fmt.Sprintf("rpc %d: grpc.Header target right after the terminal result = %s, handler set %s", id, mdString(ht), mdString(expHdr)), det("via", "grpc.Header", "values", utf), term.Ret)
				}
			}
			if two, _ := ex["two_targets"].(bool); two {
				// two locations of a kind were passed: both are filled alike
				if p.OptHeader {
					a, _ := ex["hdr_target"].(metadata.MD)
					b, _ := ex["hdr_target0"].(metadata.MD)
					if !mdEqual(a, b) {
						w.AddViolation("C02", "header-mismatch", fmt.Sprintf("rpc %d: two grpc.Header locations were passed; right after the terminal result one holds %s, the other %s", id, mdString(b), mdString(a)), det("via", "grpc.Header-second-location", "values", utf), term.Ret)
					}
				}
				if p.OptTrailer {
					a, _ := ex["tlr_target"].(metadata.MD)
					b, _ := ex["tlr_target0"].(metadata.MD)
					if !mdEqual(a, b) {
						w.AddViolation("C02", "trailer-mismatch", fmt.Sprintf("rpc %d: two grpc.Trailer locations were passed; right after the terminal result one holds %s, the other %s", id, mdString(b), mdString(a)), det("via", "grpc.Trailer-second-location", "values", utf), term.Ret)
					}
				}
			}
			if p.OptPeer {
				if ps, _ := ex["peer_target"].(string); ps == "" && expectPeer(w, p) {
					w.AddViolation("C02", "header-mismatch", fmt.Sprintf("rpc %d: grpc.Peer target was not filled in", id), det("via", "grpc.Peer"), term.Ret)
				}
			}
		}
		// the grpc.Header locations while the stream is still open
		if first := firstRecvOK(r); first != nil && first.Res != nil && first.Res.Extra != nil && p.OptHeader && !first.Res.Terminal {
			if ht, ok := first.Res.Extra["hdr_target_inflight"].(metadata.MD); ok {
				h.Derived["probe.header_location_read_in_flight"]++
				if !mdEqual(ht, expHdr) {
					w.AddViolation("C02", "header-mismatch", fmt.Sprintf("rpc %d: grpc.Header target right after the first response message (stream still open) = %s, handler set %s", id, mdString(ht), mdString(expHdr)), det("via", "grpc.Header-in-flight", "values", utf), first.Ret)
				}
				if two, _ := first.Res.Extra["two_targets"].(bool); two {
					if b, _ := first.Res.Extra["hdr_target0_inflight"].(metadata.MD); !mdEqual(ht, b) {
						w.AddViolation("C02", "header-mismatch", fmt.Sprintf("rpc %d: two grpc.Header locations were passed; right after the first response message one holds %s, the other %s", id, mdString(b), mdString(ht)), det("via", "grpc.Header-second-location-in-flight", "values", utf), first.Ret)
					}
				}
			}
		}
		// later reads
		for _, o := range r.Ops {
			if !o.Returned() || (o.Actor != "cr" && o.Actor != "c") {
				continue
			}
			switch o.Op {
			case OpTrailer:
				if o.Inv > term.Ret && !mdEqual(o.Res.MD, expTlr) {
					w.AddViolation("C02", "trailer-mismatch", fmt.Sprintf("rpc %d: Trailer() after completion = %s, handler set %s", id, mdString(o.Res.MD), mdString(expTlr)), det("via", "Trailer()-later", "values", utf), o.Ret)
				}
			case OpHeader:
				if o.Res.Err != nil {
					w.AddViolation("C02", "header-mismatch", fmt.Sprintf("rpc %d: Header() failed: %v", id, o.Res.Err), det("via", "Header()", "values", utf), o.Ret)
				} else if !mdEqual(o.Res.MD, expHdr) {
					w.AddViolation("C02", "header-mismatch", fmt.Sprintf("rpc %d: Header() = %s, handler set %s", id, mdString(o.Res.MD), mdString(expHdr)), det("via", "Header()", "values", utf), o.Ret)
				}
				// headers are available no later than the first response message

			case OpReadTargets:
				if o.Inv > term.Ret {
					if p.OptTrailer {
						tt, _ := o.Res.Extra["tlr_target"].(metadata.MD)
						if !mdEqual(tt, expTlr) {
							w.AddViolation("C02", "trailer-mismatch", fmt.Sprintf("rpc %d: grpc.Trailer target after completion = %s, handler set %s", id, mdString(tt), mdString(expTlr)), det("via", "grpc.Trailer-later", "values", utf), o.Ret)
						}
					}
					if p.OptHeader {
						ht, _ := o.Res.Extra["hdr_target"].(metadata.MD)
						if !mdEqual(ht, expHdr) {
							w.AddViolation("C02", "header-mismatch", fmt.Sprintf("rpc %d: grpc.Header target after completion = %s, handler set %s", id, mdString(ht), mdString(expHdr)), det("via", "grpc.Header-later", "values", utf), o.Ret)
						}
					}
				}
			}
		}
	}
	_ = simrt.ClassApp
	_ = codes.OK
}

func expectPeer(w *World, p *RPCPlan) bool {
	// the peer of a tunnel channel is the peer of the tunnel-opening stream; the
	// sim carrier sets one on the accepting side only (reverse tunnels)
	t := w.Tunnels[p.Tunnel]
	return t.RevServer != nil && t.Outer == nil
}

func firstRecvOK(r *RPCHist) *OpRec {
	for _, o := range r.OpsOf(OpRecv, "cr") {
		if o.OK() {
			return o
		}
	}
	return nil
}

// framesDeliveredBetween counts frames of the RPC's stream delivered to the
// caller's endpoint within (from, to).
func framesDeliveredBetween(h *History, p *RPCPlan, from, to int64) int {
	// find the stream id of the RPC
	var conn int
	var sid int64 = -1 << 62
	for _, f := range h.Frames {
		if f.Info != nil && f.Info.Type == FNewStream && f.Info.RPC == p.ID {
			conn, sid = f.Info.Conn, f.Info.StreamID
			break
		}
	}
	n := 0
	for _, f := range h.Frames {
		if f.Info == nil || f.Info.ToServer || f.Info.Conn != conn || f.Info.StreamID != sid {
			continue
		}
		if f.Deliver > from && f.Deliver < to {
			n++
		}
	}
	return n
}

func statusEqual(a, b *spb.Status) bool {
	if a == nil || a.Code == 0 {
		return b == nil || b.Code == 0
	}
	if b == nil {
		return false
	}
	return proto.Equal(a, b)
}

func stString(s *spb.Status) string {
	if s == nil {
		return "OK"
	}
	return fmt.Sprintf("{code=%v msg=%q details=%d}", codes.Code(s.Code), trim(s.Message, 60), len(s.Details))
}

func codeName(s *spb.Status) string {
	if s == nil {
		return "OK"
	}
	return codes.Code(s.Code).String()
}
