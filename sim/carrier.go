package sim

import (
	"context"
	"io"
	"sync"
	"time"
	"unsafe"

	"google.golang.org/grpc"
	"google.golang.org/grpc/codes"
	"google.golang.org/grpc/metadata"
	"google.golang.org/grpc/peer"
	"google.golang.org/grpc/status"
	"google.golang.org/protobuf/proto"

	"github.com/jhump/grpctunnel/tunnelpb"

	"verif/simrt"
)

// The sim carrier: an in-memory model of a grpc-go bidirectional stream
// (DESIGN.md 2.4). It is the seam the library already exposes:
// tunnelpb.TunnelServiceClient on the dialling side and the
// TunnelService_Open*Server stream interfaces on the accepting side.

// CarrierCfg is drawn per run.
type CarrierCfg struct {
	CapFrames int           // per direction; 0 = unbounded
	CapBytes  int           // per direction; 0 = unbounded
	LatC2S    time.Duration // max per-frame virtual latency, network client -> network server
	LatS2C    time.Duration
	Buggify   int // percent: a Send yields extra scheduling points although capacity remains
}

// Carrier implements tunnelpb.TunnelServiceClient over in-memory streams.
type Carrier struct {
	Intercept bool // forward opens pass through a metadata-adding client stream interceptor
	W         *World
	Name      string
	Svc       tunnelpb.TunnelServiceServer
	Cfg       CarrierCfg

	// legacy views: remove the grpctunnel-negotiate header in one direction
	StripReqNegotiate  bool
	StripRespNegotiate bool

	// values the network server attaches to the context of each accepted stream
	PeerAddr string
	Marker   any

	mu    sync.Mutex
	Conns []*Conn

	Meta ConnMeta // what the wire monitor may expect of streams of this carrier

	// If set, called instead of Svc to serve an accepted stream (raw peers).
	RawServe func(c *Conn) error
}

type ctxMarkerKey struct{}

// MarkerFromContext returns the value standing for an interceptor-set context value.
func MarkerFromContext(ctx context.Context) any { return ctx.Value(ctxMarkerKey{}) }

type qframe struct {
	b       []byte
	ready   bool
	readyAt time.Duration // virtual arrival time (latency)
	seq     int64         // emit event seq
}

type pipe struct {
	mu         sync.Mutex // real; never held while parked (see package comment in simrt)
	q          []qframe
	qbytes     int
	sendClosed bool  // sender will send no more
	broken     error // stream torn down: frames lost, both ends fail
	emitted    int
	delivered  int
	held       bool // fault: nothing is delivered from this direction for now
	pumping    bool // a latency pump goroutine is running
}

func (p *pipe) key() unsafe.Pointer { return unsafe.Pointer(p) }

// Conn is one carrier stream (one tunnel).
type Conn struct {
	Car     *Carrier
	ID      int
	Reverse bool // opened with OpenReverseTunnel

	c2s pipe // network client -> network server
	s2c pipe // network server -> network client

	// header / status state travels with the s2c direction (guarded by s2c.mu)
	hdrSent     bool
	hdr         metadata.MD
	pendHdr     metadata.MD
	trailer     metadata.MD
	status      error // handler's result; valid once srvReturned
	srvReturned bool

	// client side
	maxRecv      int // grpc.MaxCallRecvMsgSize given when the stream was opened
	haveMaxRecv  bool
	cliCtx       context.Context
	cliCancel    context.CancelFunc
	cliFinished  bool  // guarded by s2c.mu
	cliErr       error // what Recv keeps returning after finish
	cliCloseSend bool  // guarded by c2s.mu
	ReqMD        metadata.MD

	// server side
	srvCtx    context.Context
	srvCancel context.CancelFunc

	BrokenBy string // fault bookkeeping
}

// ---- events -------------------------------------------------------------

func (c *Conn) tapEmit(dir int, b []byte, m proto.Message) int64 {
	return simrt.Emit(simrt.Event{Kind: EvFrameEmit, A: int64(c.ID), B: int64(dir), C: int64(len(b)), P: summarize(c, dir, m)})
}

func (c *Conn) tapDeliver(dir int, emitSeq int64, m proto.Message) {
	simrt.Emit(simrt.Event{Kind: EvFrameDeliver, A: int64(c.ID), B: int64(dir), C: emitSeq, P: summarize(c, dir, m)})
}

// ---- dialling side --------------------------------------------------------

func (car *Carrier) open(ctx context.Context, reverse bool) *Conn {
	c := &Conn{Car: car, Reverse: reverse}
	car.mu.Lock()
	c.ID = car.W.nextConnID()
	car.Conns = append(car.Conns, c)
	car.W.ConnMeta[c.ID] = car.Meta
	car.mu.Unlock()

	if !reverse && car.Intercept {
		// what a client stream interceptor of the stub does: the call goes out
		// with more metadata than the caller's context had, visible only
		// through the stream's own context
		ctx = metadata.AppendToOutgoingContext(ctx, "sim-intercepted", "by-the-stub")
	}
	c.cliCtx, c.cliCancel = context.WithCancel(context.WithValue(ctx, simrt.OrderKey{}, int64(c.ID)))
	md, _ := metadata.FromOutgoingContext(ctx)
	c.ReqMD = md.Copy()

	smd := md.Copy()
	if car.StripReqNegotiate {
		delete(smd, "grpctunnel-negotiate")
	}
	sctx := context.Background()
	sctx = metadata.NewIncomingContext(sctx, smd)
	sctx = peer.NewContext(sctx, &peer.Peer{Addr: simAddr(car.PeerAddr)})
	sctx = context.WithValue(sctx, ctxMarkerKey{}, car.Marker)
	if dl, ok := ctx.Deadline(); ok {
		var cancel context.CancelFunc
		sctx, cancel = context.WithDeadline(sctx, dl)
		_ = cancel
	}
	c.srvCtx, c.srvCancel = context.WithCancel(sctx)

	simrt.Emit(simrt.Event{Kind: EvConnOpen, A: int64(c.ID), B: b2i(reverse), S: car.Name})

	// the client context ending ends the stream (grpc-go: the stream's
	// goroutine watching ctx.Done calls cs.finish)
	simrt.GoDaemon("carrier.ctxwatch", func() {
		<-c.cliCtx.Done()
		simrt.Yield(simrt.ClassWake)
		c.clientCtxDone()
	})
	// the accepting side: the service handler runs in its own goroutine
	simrt.Go("carrier.serve", func() {
		var err error
		if car.RawServe != nil {
			err = car.RawServe(c)
		} else if reverse {
			err = car.Svc.OpenReverseTunnel(&revServerEnd{c})
		} else {
			err = car.Svc.OpenTunnel(&fwdServerEnd{c})
		}
		c.serverReturned(err)
	})
	return c
}

type simAddr string

func (a simAddr) Network() string { return "sim" }
func (a simAddr) String() string  { return string(a) }

func (car *Carrier) OpenTunnel(ctx context.Context, opts ...grpc.CallOption) (grpc.BidiStreamingClient[tunnelpb.ClientToServer, tunnelpb.ServerToClient], error) {
	if err := ctx.Err(); err != nil {
		return nil, status.FromContextError(err).Err()
	}
	c := car.open(ctx, false)
	c.applyCallOptions(opts)
	return &fwdClientEnd{c}, nil
}

// applyCallOptions models the call options that change what the stream does:
// grpc.MaxCallRecvMsgSize (a received message larger than the limit ends the
// stream with ResourceExhausted, as in grpc-go's recv path).
func (c *Conn) applyCallOptions(opts []grpc.CallOption) {
	for _, o := range opts {
		if m, ok := o.(grpc.MaxRecvMsgSizeCallOption); ok {
			c.maxRecv = m.MaxRecvMsgSize
			c.haveMaxRecv = true
		}
	}
}

func (car *Carrier) OpenReverseTunnel(ctx context.Context, opts ...grpc.CallOption) (grpc.BidiStreamingClient[tunnelpb.ServerToClient, tunnelpb.ClientToServer], error) {
	if err := ctx.Err(); err != nil {
		return nil, status.FromContextError(err).Err()
	}
	c := car.open(ctx, true)
	c.applyCallOptions(opts)
	return &revClientEnd{c}, nil
}

// ---- termination paths ------------------------------------------------------

// clientCtxDone: the dialling side's context ended (cancel / deadline / stream finished).
func (c *Conn) clientCtxDone() {
	c.s2c.mu.Lock()
	already := c.cliFinished
	if !already {
		c.cliFinished = true
		c.cliErr = status.FromContextError(c.cliCtx.Err()).Err()
	}
	c.s2c.mu.Unlock()
	if already {
		return
	}
	simrt.Emit(simrt.Event{Kind: EvConnEnd, A: int64(c.ID), S: "client-ctx", S2: c.cliCtx.Err().Error()})
	// RST_STREAM reaches the server: its context is cancelled, frames in flight are dropped
	c.c2s.mu.Lock()
	if c.c2s.broken == nil {
		c.c2s.broken = status.Error(codes.Canceled, "context canceled")
		c.c2s.q, c.c2s.qbytes = nil, 0
	}
	c.c2s.mu.Unlock()
	c.s2c.mu.Lock()
	if c.s2c.broken == nil {
		c.s2c.broken = status.Error(codes.Canceled, "context canceled")
		c.s2c.q, c.s2c.qbytes = nil, 0
	}
	c.s2c.mu.Unlock()
	c.srvCancel()
	simrt.Wake(c.c2s.key())
	simrt.Wake(c.s2c.key())
}

// finishClient: the client observed the end of the stream through Recv/Send.
func (c *Conn) finishClientLocked(err error) {
	if c.cliFinished {
		return
	}
	c.cliFinished = true
	c.cliErr = err
	simrt.Emit(simrt.Event{Kind: EvConnEnd, A: int64(c.ID), S: "client-finish", S2: errString(err)})
	c.cliCancel() // wakes the watcher, which finds cliFinished set and does nothing
}

// serverReturned: the service handler returned.
func (c *Conn) serverReturned(err error) {
	c.s2c.mu.Lock()
	c.srvReturned = true
	c.status = err
	c.s2c.sendClosed = true
	if !c.hdrSent {
		c.hdrSent = true
		c.hdr = c.pendHdr
	}
	c.s2c.mu.Unlock()
	simrt.Emit(simrt.Event{Kind: EvConnEnd, A: int64(c.ID), S: "server-return", S2: errString(err)})
	c.srvCancel()
	// anything the client still sends is discarded
	c.c2s.mu.Lock()
	c.c2s.q, c.c2s.qbytes = nil, 0
	c.c2s.mu.Unlock()
	simrt.Wake(c.s2c.key())
	simrt.Wake(c.c2s.key())
}

// Break models a transport failure: both ends fail, frames in flight are lost.
func (c *Conn) Break(why string) {
	c.BrokenBy = why
	simrt.Emit(simrt.Event{Kind: EvConnEnd, A: int64(c.ID), S: "break", S2: why})
	e := status.Error(codes.Unavailable, "transport is closing")
	c.c2s.mu.Lock()
	if c.c2s.broken == nil {
		c.c2s.broken = e
		c.c2s.q, c.c2s.qbytes = nil, 0
	}
	c.c2s.mu.Unlock()
	c.s2c.mu.Lock()
	if c.s2c.broken == nil {
		c.s2c.broken = e
		c.s2c.q, c.s2c.qbytes = nil, 0
	}
	c.s2c.mu.Unlock()
	c.srvCancel()
	simrt.Wake(c.c2s.key())
	simrt.Wake(c.s2c.key())
}

// Ended reports whether the stream is over from the client's point of view.
func (c *Conn) Ended() bool {
	c.s2c.mu.Lock()
	defer c.s2c.mu.Unlock()
	return c.cliFinished || c.s2c.broken != nil || c.srvReturned
}

// ---- generic send / receive ------------------------------------------------

func (c *Conn) latency(dir int) time.Duration {
	max := c.Car.Cfg.LatC2S
	if dir == DirS2C {
		max = c.Car.Cfg.LatS2C
	}
	if max <= 0 {
		return 0
	}
	return time.Duration(simrt.Choose(int(max/time.Microsecond)+1, "lat")) * time.Microsecond
}

func (c *Conn) full(p *pipe, n int) bool {
	cfg := &c.Car.Cfg
	if cfg.CapFrames > 0 && len(p.q) >= cfg.CapFrames {
		return true
	}
	if cfg.CapBytes > 0 && len(p.q) > 0 && p.qbytes+n > cfg.CapBytes {
		return true
	}
	return false
}

func (c *Conn) enqueue(p *pipe, dir int, b []byte, m proto.Message) {
	lat := c.latency(dir)
	seq := c.tapEmit(dir, b, m)
	f := qframe{b: b, ready: lat == 0, seq: seq}
	if lat > 0 {
		f.readyAt = simrt.VirtualNow() + lat
	}
	p.q = append(p.q, f)
	p.qbytes += len(b)
	p.emitted++
	c.Car.W.onFrame()
	if lat == 0 {
		simrt.Wake(p.key())
		return
	}
	// one latency pump per direction at a time: it marks frames ready as their
	// virtual arrival time comes and exits when none is pending
	if p.pumping {
		return
	}
	p.pumping = true
	simrt.GoDaemon("carrier.latency", func() {
		for {
			p.mu.Lock()
			now := simrt.VirtualNow()
			var next time.Duration = -1
			for i := range p.q {
				if p.q[i].ready {
					continue
				}
				if p.q[i].readyAt <= now {
					p.q[i].ready = true
					continue
				}
				if next < 0 || p.q[i].readyAt < next {
					next = p.q[i].readyAt
				}
			}
			if next < 0 {
				p.pumping = false
				p.mu.Unlock()
				simrt.Wake(p.key())
				return
			}
			p.mu.Unlock()
			simrt.Wake(p.key())
			simrt.Sleep(next - now)
		}
	})
}

func (c *Conn) buggify() {
	if pct := c.Car.Cfg.Buggify; pct > 0 && simrt.Choose(100, "bug") >= 100-pct {
		simrt.Count(CntBuggifySendStall, 1)
		n := 1 + simrt.Choose(3, "bugn")
		for i := 0; i < n; i++ {
			simrt.Yield(simrt.ClassWake)
		}
	}
}

// clientSend: SendMsg on the dialling side.
func (c *Conn) clientSend(m proto.Message) error {
	b, merr := proto.Marshal(m)
	c.s2c.mu.Lock()
	fin := c.cliFinished
	c.s2c.mu.Unlock()
	if fin {
		return io.EOF
	}
	if merr != nil {
		err := status.Errorf(codes.Internal, "grpc: error while marshaling: %v", merr)
		c.failClient(err)
		return err
	}
	c.buggify()
	p := &c.c2s
	p.mu.Lock()
	if c.cliCloseSend {
		p.mu.Unlock()
		err := status.Error(codes.Internal, "SendMsg called after CloseSend")
		c.failClient(err)
		return err
	}
	for {
		if p.broken != nil || c.srvDone() || c.cliDone() {
			p.mu.Unlock()
			return io.EOF
		}
		if !c.full(p, len(b)) {
			break
		}
		simrt.Count(CntCarrierBackpressure, 1)
		p.mu.Unlock()
		simrt.BlockOn(p.key())
		p.mu.Lock()
	}
	c.enqueue(p, DirC2S, b, m)
	p.mu.Unlock()
	return nil
}

func (c *Conn) srvDone() bool { // caller must not hold s2c.mu
	c.s2c.mu.Lock()
	defer c.s2c.mu.Unlock()
	return c.srvReturned
}

func (c *Conn) cliDone() bool { // caller must not hold s2c.mu
	c.s2c.mu.Lock()
	defer c.s2c.mu.Unlock()
	return c.cliFinished
}

// failClient: a client-side SendMsg error other than io.EOF finishes the stream
// (grpc-go: cs.finish(err)); the server sees a cancelled stream.
func (c *Conn) failClient(err error) {
	c.s2c.mu.Lock()
	was := c.cliFinished
	c.finishClientLocked(err)
	c.s2c.mu.Unlock()
	if was {
		return
	}
	c.c2s.mu.Lock()
	if c.c2s.broken == nil {
		c.c2s.broken = status.Error(codes.Canceled, "context canceled")
		c.c2s.q, c.c2s.qbytes = nil, 0
	}
	c.c2s.mu.Unlock()
	c.s2c.mu.Lock()
	if c.s2c.broken == nil {
		c.s2c.broken = status.Error(codes.Canceled, "context canceled")
		c.s2c.q, c.s2c.qbytes = nil, 0
	}
	c.s2c.mu.Unlock()
	c.srvCancel()
	simrt.Wake(c.c2s.key())
	simrt.Wake(c.s2c.key())
}

func (c *Conn) clientCloseSend() error {
	p := &c.c2s
	p.mu.Lock()
	c.cliCloseSend = true
	p.sendClosed = true
	p.mu.Unlock()
	simrt.Emit(simrt.Event{Kind: EvConnEnd, A: int64(c.ID), S: "close-send"})
	simrt.Wake(p.key())
	return nil
}

// clientRecv: RecvMsg on the dialling side.
func (c *Conn) clientRecv(m proto.Message) error {
	p := &c.s2c
	p.mu.Lock()
	for {
		if c.cliFinished {
			err := c.cliErr
			p.mu.Unlock()
			return err
		}
		if p.broken != nil {
			err := p.broken
			c.finishClientLocked(err)
			p.mu.Unlock()
			return err
		}
		if len(p.q) > 0 && p.q[0].ready && !p.held {
			f := p.q[0]
			p.q = p.q[1:]
			p.qbytes -= len(f.b)
			p.delivered++
			if !c.hdrSent { // a message implies headers
				c.hdrSent = true
				c.hdr = c.pendHdr
			}
			p.mu.Unlock()
			simrt.Wake(p.key())
			if c.haveMaxRecv && len(f.b) > c.maxRecv {
				e := status.Errorf(codes.ResourceExhausted, "grpc: received message larger than max (%d vs. %d)", len(f.b), c.maxRecv)
				c.failClient(e)
				return e
			}
			if err := proto.Unmarshal(f.b, m); err != nil {
				e := status.Errorf(codes.Internal, "grpc: failed to unmarshal the received message: %v", err)
				c.failClient(e)
				return e
			}
			c.tapDeliver(DirS2C, f.seq, m)
			return nil
		}
		if len(p.q) == 0 && p.sendClosed && c.srvReturned {
			var err error = io.EOF
			if c.status != nil {
				st, _ := status.FromError(c.status)
				err = st.Err()
				if cerr := contextCode(c.status); cerr != nil {
					err = cerr
				}
			}
			c.finishClientLocked(err)
			p.mu.Unlock()
			return err
		}
		p.mu.Unlock()
		simrt.BlockOn(p.key())
		p.mu.Lock()
	}
}

// contextCode maps a handler that returned a bare context error the way grpc-go does.
func contextCode(err error) error {
	switch err {
	case context.Canceled:
		return status.Error(codes.Canceled, err.Error())
	case context.DeadlineExceeded:
		return status.Error(codes.DeadlineExceeded, err.Error())
	}
	return nil
}

func (c *Conn) clientHeader() (metadata.MD, error) {
	p := &c.s2c
	p.mu.Lock()
	for {
		if c.hdrSent {
			h := c.hdr.Copy()
			p.mu.Unlock()
			if c.Car.StripRespNegotiate {
				delete(h, "grpctunnel-negotiate")
			}
			return h, nil
		}
		if c.cliFinished {
			err := c.cliErr
			p.mu.Unlock()
			if err == io.EOF {
				return nil, nil
			}
			return nil, err
		}
		if p.broken != nil {
			err := p.broken
			p.mu.Unlock()
			return nil, err
		}
		p.mu.Unlock()
		simrt.BlockOn(p.key())
		p.mu.Lock()
	}
}

func (c *Conn) clientTrailer() metadata.MD {
	c.s2c.mu.Lock()
	defer c.s2c.mu.Unlock()
	return c.trailer.Copy()
}

// serverSend: SendMsg on the accepting side.
func (c *Conn) serverSend(m proto.Message) error {
	b, merr := proto.Marshal(m)
	p := &c.s2c
	if merr != nil {
		// grpc-go writes the status at once: the RPC is over for the client
		err := status.Errorf(codes.Internal, "grpc: error while marshaling: %v", merr)
		c.serverWriteStatus(err)
		return err
	}
	c.buggify()
	p.mu.Lock()
	if !c.hdrSent {
		c.hdrSent = true
		c.hdr = c.pendHdr
	}
	for {
		if p.broken != nil {
			err := p.broken
			p.mu.Unlock()
			return err
		}
		if p.sendClosed {
			p.mu.Unlock()
			return status.Error(codes.Internal, "transport: the stream is done or WriteHeader was already called")
		}
		if !c.full(p, len(b)) {
			break
		}
		simrt.Count(CntCarrierBackpressure, 1)
		p.mu.Unlock()
		simrt.BlockOn(p.key())
		p.mu.Lock()
	}
	c.enqueue(p, DirS2C, b, m)
	p.mu.Unlock()
	return nil
}

// serverWriteStatus ends the RPC from the server side before the handler returned.
func (c *Conn) serverWriteStatus(err error) {
	p := &c.s2c
	p.mu.Lock()
	if !p.sendClosed {
		p.sendClosed = true
		c.srvReturned = true
		c.status = err
		if !c.hdrSent {
			c.hdrSent = true
			c.hdr = c.pendHdr
		}
	}
	p.mu.Unlock()
	simrt.Emit(simrt.Event{Kind: EvConnEnd, A: int64(c.ID), S: "server-write-status", S2: errString(err)})
	c.srvCancel()
	simrt.Wake(p.key())
	simrt.Wake(c.c2s.key())
}

// serverRecv: RecvMsg on the accepting side.
func (c *Conn) serverRecv(m proto.Message) error {
	p := &c.c2s
	p.mu.Lock()
	for {
		if p.broken != nil {
			err := p.broken
			p.mu.Unlock()
			return err
		}
		if c.srvCtx.Err() != nil {
			p.mu.Unlock()
			return status.Error(codes.Canceled, "context canceled")
		}
		if len(p.q) > 0 && p.q[0].ready && !p.held {
			f := p.q[0]
			p.q = p.q[1:]
			p.qbytes -= len(f.b)
			p.delivered++
			p.mu.Unlock()
			simrt.Wake(p.key())
			if err := proto.Unmarshal(f.b, m); err != nil {
				e := status.Errorf(codes.Internal, "grpc: failed to unmarshal the received message: %v", err)
				c.serverWriteStatus(e)
				return e
			}
			c.tapDeliver(DirC2S, f.seq, m)
			return nil
		}
		if len(p.q) == 0 && p.sendClosed {
			p.mu.Unlock()
			return io.EOF
		}
		p.mu.Unlock()
		simrt.BlockOn(p.key())
		p.mu.Lock()
	}
}

func (c *Conn) serverSetHeader(md metadata.MD, send bool) error {
	c.s2c.mu.Lock()
	if c.hdrSent {
		c.s2c.mu.Unlock()
		return status.Error(codes.Internal, "transport: the stream is done or WriteHeader was already called")
	}
	c.pendHdr = metadata.Join(c.pendHdr, md)
	if send {
		c.hdrSent = true
		c.hdr = c.pendHdr
	}
	c.s2c.mu.Unlock()
	if send {
		simrt.Wake(c.s2c.key())
	}
	return nil
}

func (c *Conn) serverSetTrailer(md metadata.MD) {
	c.s2c.mu.Lock()
	c.trailer = metadata.Join(c.trailer, md)
	c.s2c.mu.Unlock()
}

// HoldDelivery stops (or resumes) delivery towards the RPC-initiating end of
// the tunnel (the tunnel client): the network client on a forward tunnel, the
// network server on a reverse tunnel.
func (c *Conn) HoldDelivery(on bool) {
	p := &c.s2c
	if c.Reverse {
		p = &c.c2s
	}
	p.mu.Lock()
	p.held = on
	p.mu.Unlock()
	simrt.Emit(simrt.Event{Kind: EvFault, S: "hold-delivery", A: int64(c.ID), B: b2i(on)})
	if !on {
		simrt.Wake(p.key())
	}
}

// SendBlockedTowardsServer reports whether the pipe that carries the tunnel
// client's frames (towards the tunnel server) is at capacity: a Send in that
// direction is then blocked by transport back-pressure.
func (c *Conn) SendBlockedTowardsServer() bool {
	p := &c.c2s
	if c.Reverse {
		p = &c.s2c
	}
	p.mu.Lock()
	defer p.mu.Unlock()
	return c.full(p, 1)
}

// InFlight returns the number of frames queued in each direction.
func (c *Conn) InFlight() (c2s, s2c int) {
	c.c2s.mu.Lock()
	c2s = len(c.c2s.q)
	c.c2s.mu.Unlock()
	c.s2c.mu.Lock()
	s2c = len(c.s2c.q)
	c.s2c.mu.Unlock()
	return
}

// ---- typed ends -----------------------------------------------------------

type clientCommon struct{ c *Conn }

func (e clientCommon) Header() (metadata.MD, error) { return e.c.clientHeader() }
func (e clientCommon) Trailer() metadata.MD         { return e.c.clientTrailer() }
func (e clientCommon) CloseSend() error             { return e.c.clientCloseSend() }
func (e clientCommon) Context() context.Context     { return e.c.cliCtx }
func (e clientCommon) SendMsg(m any) error          { return e.c.clientSend(m.(proto.Message)) }
func (e clientCommon) RecvMsg(m any) error          { return e.c.clientRecv(m.(proto.Message)) }

type fwdClientEnd struct{ c *Conn }

func (e *fwdClientEnd) Header() (metadata.MD, error) { return e.c.clientHeader() }
func (e *fwdClientEnd) Trailer() metadata.MD         { return e.c.clientTrailer() }
func (e *fwdClientEnd) CloseSend() error             { return e.c.clientCloseSend() }
func (e *fwdClientEnd) Context() context.Context     { return e.c.cliCtx }
func (e *fwdClientEnd) SendMsg(m any) error          { return e.c.clientSend(m.(proto.Message)) }
func (e *fwdClientEnd) RecvMsg(m any) error          { return e.c.clientRecv(m.(proto.Message)) }
func (e *fwdClientEnd) Send(m *tunnelpb.ClientToServer) error {
	return e.c.clientSend(m)
}
func (e *fwdClientEnd) Recv() (*tunnelpb.ServerToClient, error) {
	m := new(tunnelpb.ServerToClient)
	if err := e.c.clientRecv(m); err != nil {
		return nil, err
	}
	return m, nil
}

type revClientEnd struct{ c *Conn }

func (e *revClientEnd) Header() (metadata.MD, error) { return e.c.clientHeader() }
func (e *revClientEnd) Trailer() metadata.MD         { return e.c.clientTrailer() }
func (e *revClientEnd) CloseSend() error             { return e.c.clientCloseSend() }
func (e *revClientEnd) Context() context.Context     { return e.c.cliCtx }
func (e *revClientEnd) SendMsg(m any) error          { return e.c.clientSend(m.(proto.Message)) }
func (e *revClientEnd) RecvMsg(m any) error          { return e.c.clientRecv(m.(proto.Message)) }
func (e *revClientEnd) Send(m *tunnelpb.ServerToClient) error {
	return e.c.clientSend(m)
}
func (e *revClientEnd) Recv() (*tunnelpb.ClientToServer, error) {
	m := new(tunnelpb.ClientToServer)
	if err := e.c.clientRecv(m); err != nil {
		return nil, err
	}
	return m, nil
}

type fwdServerEnd struct{ c *Conn }

func (e *fwdServerEnd) SetHeader(md metadata.MD) error  { return e.c.serverSetHeader(md, false) }
func (e *fwdServerEnd) SendHeader(md metadata.MD) error { return e.c.serverSetHeader(md, true) }
func (e *fwdServerEnd) SetTrailer(md metadata.MD)       { e.c.serverSetTrailer(md) }
func (e *fwdServerEnd) Context() context.Context        { return e.c.srvCtx }
func (e *fwdServerEnd) SendMsg(m any) error             { return e.c.serverSend(m.(proto.Message)) }
func (e *fwdServerEnd) RecvMsg(m any) error             { return e.c.serverRecv(m.(proto.Message)) }
func (e *fwdServerEnd) Send(m *tunnelpb.ServerToClient) error {
	return e.c.serverSend(m)
}
func (e *fwdServerEnd) Recv() (*tunnelpb.ClientToServer, error) {
	m := new(tunnelpb.ClientToServer)
	if err := e.c.serverRecv(m); err != nil {
		return nil, err
	}
	return m, nil
}

type revServerEnd struct{ c *Conn }

func (e *revServerEnd) SetHeader(md metadata.MD) error  { return e.c.serverSetHeader(md, false) }
func (e *revServerEnd) SendHeader(md metadata.MD) error { return e.c.serverSetHeader(md, true) }
func (e *revServerEnd) SetTrailer(md metadata.MD)       { e.c.serverSetTrailer(md) }
func (e *revServerEnd) Context() context.Context        { return e.c.srvCtx }
func (e *revServerEnd) SendMsg(m any) error             { return e.c.serverSend(m.(proto.Message)) }
func (e *revServerEnd) RecvMsg(m any) error             { return e.c.serverRecv(m.(proto.Message)) }
func (e *revServerEnd) Send(m *tunnelpb.ClientToServer) error {
	return e.c.serverSend(m)
}
func (e *revServerEnd) Recv() (*tunnelpb.ServerToClient, error) {
	m := new(tunnelpb.ServerToClient)
	if err := e.c.serverRecv(m); err != nil {
		return nil, err
	}
	return m, nil
}

func errString(err error) string {
	if err == nil {
		return ""
	}
	return err.Error()
}

func b2i(b bool) int64 {
	if b {
		return 1
	}
	return 0
}
