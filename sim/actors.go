package sim

import (
	"context"
	"errors"
	"fmt"
	"io"
	"strconv"
	"time"
	"verif/sim/touch"

	spb "google.golang.org/genproto/googleapis/rpc/status"
	"google.golang.org/grpc"
	"google.golang.org/grpc/codes"
	"google.golang.org/grpc/metadata"
	"google.golang.org/grpc/peer"
	"google.golang.org/grpc/status"
	"google.golang.org/protobuf/types/known/wrapperspb"

	"github.com/jhump/grpctunnel"

	"verif/simrt"
)

// RPC shapes.
const (
	ShapeUnary = iota
	ShapeClientStream
	ShapeServerStream
	ShapeBidi
)

var shapeNames = [...]string{"unary", "client-stream", "server-stream", "bidi"}
var shapeMethods = [...]string{"/sim.Test/Unary", "/sim.Test/ClientStream", "/sim.Test/ServerStream", "/sim.Test/Bidi"}

func shapeClientStreams(s int) bool { return s == ShapeClientStream || s == ShapeBidi }
func shapeServerStreams(s int) bool { return s == ShapeServerStream || s == ShapeBidi }

// Operation kinds (history events and scripts).
const (
	OpStart = iota + 1 // caller: NewStream / Invoke begins
	OpSend
	OpCloseSend
	OpRecv
	OpHeader
	OpTrailer
	OpCancel
	OpSleep
	OpInvoke // caller: whole unary call
	OpSetHeader
	OpSendHeader
	OpSetTrailer
	OpReturn
	OpAwaitCtx
	OpProbe
	OpPause   // block until the director opens the gate
	OpRecvAll // receive until a terminal result
	OpSendAll // send every remaining planned message
	OpReadTargets
	OpStopServer // handler: Stop the reverse tunnel server that is serving this very RPC
)

var opNames = map[int]string{OpStart: "start", OpSend: "send", OpCloseSend: "close-send", OpRecv: "recv", OpHeader: "header",
	OpTrailer: "trailer", OpCancel: "cancel", OpSleep: "sleep", OpInvoke: "invoke", OpSetHeader: "set-header", OpSendHeader: "send-header",
	OpSetTrailer: "set-trailer", OpReturn: "return", OpAwaitCtx: "await-ctx", OpProbe: "probe", OpPause: "pause", OpRecvAll: "recv-all",
	OpSendAll: "send-all", OpReadTargets: "read-targets", OpStopServer: "stop-server"}

// Op is one step of a caller or handler script.
type Op struct {
	Kind int
	N    int           // OpSend: message index; OpPause: gate id
	MD   metadata.MD   // header/trailer ops
	D    time.Duration // OpSleep
	St   *spb.Status   // OpReturn (nil = OK)
	// Insist: carry on with the script when this send is refused (an
	// application that retries)
	Insist bool
}

// OpResult is attached to EvOpReturn.
type OpResult struct {
	Err      error
	Code     codes.Code
	Terminal bool // a Recv that returned EOF / error
	Len      int
	Match    bool   // payload matched the expected content for (rpc, dir, idx)
	Got      []byte // kept only on mismatch (truncated)
	MD       metadata.MD
	St       *spb.Status
	Extra    map[string]any
}

// RPCPlan describes one RPC: what the caller does and what the handler does.
type RPCPlan struct {
	ID     int
	Shape  int
	Method string
	Tunnel int    // which tunnel / channel of the world carries it
	Via    string // "" direct channel, "pool" AsChannel, "key" KeyAsChannel
	Key    any

	ReqSizes  []int
	RespSizes []int

	ReqMD       metadata.MD
	Deadline    time.Duration // caller-side context deadline (0 = none)
	GrpcTimeout string        // explicit grpc-timeout header value ("" = none)

	// call options
	OptHeader, OptTrailer, OptPeer, OptChannel bool
	Creds                                      *SimCreds
	Creds2                                     *SimCreds // a second credentials option on the same call (only with Creds)

	CallerSend  []Op // sender goroutine (streaming shapes with client streaming) / before receive for others
	CallerRecv  []Op // receiver script
	Handler     []Op
	HandlerSend []Op // optional concurrent sender goroutine inside the handler

	// faults
	CancelAfter struct { // cancel the caller's context right after this op returned
		Actor  string // "cs" or "cr"
		Idx    int    // index in that script; -1 = none
		Before bool   // cancel before invoking instead
	}
	NoOutgoingMD      bool // do not attach any outgoing metadata (not even sim-rpc)
	expectLocalReject bool // the call is refused before anything is sent
	KeepCtx           bool // the caller does not cancel its context when the call is over (an application calling with a long-lived context): nothing of the RPC may stay behind waiting for it
	Bare              bool // no request metadata at all: no outgoing metadata, no credentials (at most one such RPC per run: its handler recognises it by the missing sim-rpc key)
	UnaryViaStream    bool // drive a unary method through NewStream
	StartGate         int  // caller waits for this gate before starting (0 = none)
	StartDelay        time.Duration

	Role              string // "", "interest", "bystander", "disturber", "fresh"
	pausedHandler     bool
	pausedReader      bool   // this RPC\'s consumer is parked behind a gate for part of the run
	pausedSide        string // which reader is parked: "caller", "handler", "handler-duplex"
	cancelWhenStalled string // "", "caller-paused", "handler-paused": the caller's context is cancelled once the run has stalled on this stream's full window
	timeoutClass      string
	timeoutRepeated   string
	awaitExpiry       bool
	neverEnds         bool // the handler only returns when its context ends
	stubborn          bool // the handler keeps running for a while after its context has ended
	late              bool // started after the tunnel ended

	// results filled in at run time (read after the run)
	Res *RPCResult
}

// RPCResult collects what the two sides observed (written by the actors; each
// field by one goroutine only).
type RPCResult struct {
	Started            bool
	StartErr           error
	HdrTarget          metadata.MD
	TlrTarget          metadata.MD
	HdrTarget0         metadata.MD // a second location, given first (what an interceptor's wrapper adds): every location is filled
	TlrTarget0         metadata.MD
	PeerTarget         peer.Peer
	ChanTarget         grpctunnel.TunnelChannel
	CallerCtx          context.Context
	CallerCancel       context.CancelFunc
	Stream             grpc.ClientStream
	HandlerCtx         context.Context
	HandlerInvocations int
}

// SimCreds is a PerRPCCredentials implementation.
type SimCreds struct {
	MD      map[string]string
	Secure  bool
	FailErr error
	URIs    []string
}

func (c *SimCreds) GetRequestMetadata(ctx context.Context, uri ...string) (map[string]string, error) {
	c.URIs = append(c.URIs, uri...)
	if c.FailErr != nil {
		return nil, c.FailErr
	}
	if err := ctx.Err(); err != nil {
		return nil, err
	}
	// credentials derive what they attach from the context of the call (a
	// token, an identity): here, the id the caller put there
	if v, ok := ctx.Value(credCallKey{}).(string); ok {
		out := map[string]string{"cred-call": v}
		for k, val := range c.MD {
			out[k] = val
		}
		return out, nil
	}
	return c.MD, nil
}

type credCallKey struct{}

// appendCredsExp adds what the credentials options of p attach, in option order.
func appendCredsExp(exp metadata.MD, p *RPCPlan) {
	for _, cr := range []*SimCreds{p.Creds, p.Creds2} {
		if cr == nil || p.Creds == nil {
			continue
		}
		for k, v := range cr.MD {
			exp.Append(k, v)
		}
		exp.Append("cred-call", "call-"+strconv.Itoa(p.ID))
	}
}

func (c *SimCreds) RequireTransportSecurity() bool { return c.Secure }

// ---- payloads -------------------------------------------------------------

// MakePayload returns the unique, attributable payload of message idx of an RPC
// in a direction (0 = request, 1 = response) with n value bytes.
func MakePayload(rpc, dir, idx, n int) []byte {
	b := make([]byte, n)
	x := uint64(rpc+1)*0x9E3779B97F4A7C15 ^ uint64(dir+1)*0xBF58476D1CE4E5B9 ^ uint64(idx+1)*0x94D049BB133111EB ^ uint64(n)*0xD6E8FEB86659FD93
	i := 0
	for i+8 <= n {
		x ^= x << 13
		x ^= x >> 7
		x ^= x << 17
		b[i] = byte(x)
		b[i+1] = byte(x >> 8)
		b[i+2] = byte(x >> 16)
		b[i+3] = byte(x >> 24)
		b[i+4] = byte(x >> 32)
		b[i+5] = byte(x >> 40)
		b[i+6] = byte(x >> 48)
		b[i+7] = byte(x >> 56)
		i += 8
	}
	for ; i < n; i++ {
		x ^= x << 13
		x ^= x >> 7
		x ^= x << 17
		b[i] = byte(x)
	}
	return b
}

func matchPayload(got []byte, rpc, dir, idx int) bool {
	return touch.Equal(got, MakePayload(rpc, dir, idx, len(got)))
}

// ValueLenForSerialized returns the BytesValue payload length whose serialised
// size is exactly n (n==0 -> empty message); ok=false if no such length exists.
func ValueLenForSerialized(n int) (int, bool) {
	if n == 0 {
		return 0, true
	}
	// serialised = 1 (tag) + varint(len) + len
	for v := 1; v <= 5; v++ {
		l := n - 1 - v
		if l < 1 {
			continue
		}
		if varintLen(uint64(l)) == v {
			return l, true
		}
	}
	return 0, false
}

func varintLen(x uint64) int {
	n := 1
	for x >= 0x80 {
		x >>= 7
		n++
	}
	return n
}

// SerializedLen is the inverse of ValueLenForSerialized.
func SerializedLen(valueLen int) int {
	if valueLen == 0 {
		return 0
	}
	return 1 + varintLen(uint64(valueLen)) + valueLen
}

// ---- events ---------------------------------------------------------------

func evInvoke(rpc int, actor string, op, idx, size int) {
	simrt.Emit(simrt.Event{Kind: EvOpInvoke, A: int64(rpc), B: int64(op), C: int64(idx), D: int64(size), S: actor})
}

func evReturn(rpc int, actor string, op, idx int, res *OpResult) {
	if res == nil {
		res = &OpResult{}
	}
	if res.Err != nil {
		res.Code = status.Code(res.Err)
		if errors.Is(res.Err, io.EOF) {
			res.Code = codes.OK
		}
	}
	simrt.Emit(simrt.Event{Kind: EvOpReturn, A: int64(rpc), B: int64(op), C: int64(idx), S: actor, S2: errString(res.Err), P: res})
}

// ---- the test service -------------------------------------------------------

// TestServer is the application service registered on the serving side of a tunnel.
type TestServer struct {
	W    *World
	Name string // identifies the serving endpoint (e.g. which reverse tunnel server)
}

// HandlerInfo is attached to EvHandlerStart.
type HandlerInfo struct {
	Server      string
	Method      string
	ReqMD       metadata.MD
	TunnelMD    metadata.MD
	HasTunnelMD bool
	Peer        string
	Marker      any
	Deadline    time.Time
	HasDeadline bool
	Now         time.Time
}

// TestDesc is a hand-written service descriptor (no protoc needed).
var TestDesc = grpc.ServiceDesc{
	ServiceName: "sim.Test",
	HandlerType: (*any)(nil),
	Methods: []grpc.MethodDesc{
		{MethodName: "Unary", Handler: unaryHandler},
	},
	Streams: []grpc.StreamDesc{
		{StreamName: "ClientStream", Handler: func(srv any, ss grpc.ServerStream) error { return streamHandler(srv, ss, ShapeClientStream) }, ClientStreams: true},
		{StreamName: "ServerStream", Handler: func(srv any, ss grpc.ServerStream) error { return streamHandler(srv, ss, ShapeServerStream) }, ServerStreams: true},
		{StreamName: "Bidi", Handler: func(srv any, ss grpc.ServerStream) error { return streamHandler(srv, ss, ShapeBidi) }, ClientStreams: true, ServerStreams: true},
	},
	Metadata: "sim.proto",
}

func rpcIDFromContext(w *World, ctx context.Context) int {
	md, _ := metadata.FromIncomingContext(ctx)
	if v := md.Get("sim-rpc"); len(v) > 0 {
		if n, err := strconv.Atoi(v[0]); err == nil {
			return n
		}
	}
	// the one RPC of the run that carries no request metadata
	if w != nil && w.bareSet {
		return w.bareID
	}
	return -1
}

func handlerInfo(ts *TestServer, ctx context.Context, method string) *HandlerInfo {
	hi := &HandlerInfo{Server: ts.Name, Method: method, Now: time.Now()}
	md, _ := metadata.FromIncomingContext(ctx)
	hi.ReqMD = touch.CopyMD(md)
	tmd, has := grpctunnel.TunnelMetadataFromIncomingContext(ctx)
	hi.TunnelMD, hi.HasTunnelMD = touch.CopyMD(tmd), has
	if p, ok := peer.FromContext(ctx); ok {
		hi.Peer = touch.PeerString(p)
	}
	hi.Marker = MarkerFromContext(ctx)
	hi.Deadline, hi.HasDeadline = ctx.Deadline()
	return hi
}

// hstream abstracts over the unary and streaming handler forms.
type hstream struct {
	ts        *TestServer
	plan      *RPCPlan
	rpc       int
	ctx       context.Context
	ss        grpc.ServerStream // streaming
	dec       func(any) error   // unary
	nrecv     int
	nsend     int
	unaryResp *wrapperspb.BytesValue
	vstream   *grpctunnel.VerifStream
	recvBuf   *wrapperspb.BytesValue // re-used receive message (see recv)
}

func unaryHandler(srv any, ctx context.Context, dec func(any) error, _ grpc.UnaryServerInterceptor) (any, error) {
	ts := srv.(*TestServer)
	rpc := rpcIDFromContext(ts.W, ctx)
	h := &hstream{ts: ts, rpc: rpc, ctx: ctx, dec: dec, plan: ts.W.Plans[rpc]}
	simrt.Emit(simrt.Event{Kind: EvHandlerStart, A: int64(rpc), S: "/sim.Test/Unary", P: handlerInfo(ts, ctx, "/sim.Test/Unary")})
	err := h.run(ShapeUnary)
	if err != nil {
		simrt.Emit(simrt.Event{Kind: EvHandlerEnd, A: int64(rpc), B: b2i(ctx.Err() != nil), S2: errString(err), P: err})
		return nil, err
	}
	defer simrt.Emit(simrt.Event{Kind: EvHandlerEnd, A: int64(rpc), B: b2i(ctx.Err() != nil)})
	if h.unaryResp == nil {
		h.unaryResp = &wrapperspb.BytesValue{}
	}
	// the response of a unary handler is its return value: record it as the
	// one message this handler submits
	evInvoke(rpc, "h", OpSend, 0, len(h.unaryResp.Value))
	evReturn(rpc, "h", OpSend, 0, &OpResult{Len: len(h.unaryResp.Value)})
	return h.unaryResp, nil
}

func streamHandler(srv any, ss grpc.ServerStream, shape int) error {
	ts := srv.(*TestServer)
	ctx := ss.Context()
	rpc := rpcIDFromContext(ts.W, ctx)
	h := &hstream{ts: ts, rpc: rpc, ctx: ctx, ss: ss, plan: ts.W.Plans[rpc]}
	simrt.Emit(simrt.Event{Kind: EvHandlerStart, A: int64(rpc), S: shapeMethods[shape], P: handlerInfo(ts, ctx, shapeMethods[shape])})
	err := h.run(shape)
	simrt.Emit(simrt.Event{Kind: EvHandlerEnd, A: int64(rpc), B: b2i(ctx.Err() != nil), S2: errString(err), P: err})
	return err
}

func (h *hstream) recv(actor string) (*OpResult, error) {
	idx := h.nrecv
	evInvoke(h.rpc, actor, OpRecv, idx, 0)
	// Some applications receive every message of a stream into one value
	// (legal: the codec resets it); which ones do follows from the plan, not
	// from a draw, so that older replays keep their meaning.
	m := &wrapperspb.BytesValue{}
	if h.rpc >= 0 && h.rpc%4 >= 2 && h.ss != nil {
		if h.recvBuf == nil {
			h.recvBuf = &wrapperspb.BytesValue{}
		}
		m = h.recvBuf
	}
	var err error
	if h.ss != nil {
		err = h.ss.RecvMsg(m)
	} else {
		err = h.dec(m)
	}
	res := &OpResult{Err: err}
	if err == nil {
		h.nrecv++
		res.Len = len(m.Value)
		res.Match = matchPayload(m.Value, h.rpc, 0, idx)
		if !res.Match {
			res.Got = trunc(m.Value, 64)
		}
	} else {
		res.Terminal = true
	}
	evReturn(h.rpc, actor, OpRecv, idx, res)
	return res, err
}

func trunc(b []byte, n int) []byte { return touch.Bytes(b, n) }

func (h *hstream) send(actor string, idx int) error {
	size := 0
	if h.plan != nil && idx < len(h.plan.RespSizes) {
		size = h.plan.RespSizes[idx]
	}
	m := &wrapperspb.BytesValue{Value: MakePayload(h.rpc, 1, idx, size)}
	if h.ss == nil {
		// unary: the response is the handler's return value
		h.unaryResp = m
		return nil
	}
	evInvoke(h.rpc, actor, OpSend, idx, size)
	err := h.ss.SendMsg(m)
	evReturn(h.rpc, actor, OpSend, idx, &OpResult{Err: err, Len: size})
	if err == nil {
		h.nsend++
	}
	return err
}

// run interprets the handler script. Without a plan it echoes.
func (h *hstream) run(shape int) error {
	if h.plan == nil {
		return h.echo(shape)
	}
	if h.plan.Res != nil {
		h.plan.Res.HandlerCtx = h.ctx
		h.plan.Res.HandlerInvocations++
	}
	if vs, vst, ok := grpctunnel.VerifServerFromContext(h.ctx); ok {
		h.ts.W.noteServer(h.ts.Name, vs)
		h.vstream = vst
		h.ts.W.noteStream(h.rpc, vst)
	}
	done := make(chan error, 1)
	if len(h.plan.HandlerSend) > 0 {
		simrt.Go("handler.sender", func() {
			_, err := h.exec("hs", h.plan.HandlerSend)
			done <- err
		})
	}
	ret, err := h.exec("h", h.plan.Handler)
	if len(h.plan.HandlerSend) > 0 {
		serr := simrt.Recv(done)
		if err == nil && serr != nil && !ret {
			err = serr
		}
	}
	return err
}

func (h *hstream) echo(shape int) error {
	for {
		res, err := h.recv("h")
		if err == io.EOF {
			return nil
		}
		if err != nil {
			return err
		}
		_ = res
		if h.ss == nil {
			return nil
		}
		if !shapeClientStreams(shape) {
			return nil
		}
	}
}

// exec runs ops; it reports whether an OpReturn was executed.
func (h *hstream) exec(actor string, ops []Op) (bool, error) {
	sendIdx := 0
	for _, op := range ops {
		switch op.Kind {
		case OpRecv:
			if _, err := h.recv(actor); err != nil {
				if err == io.EOF {
					continue
				}
				return false, err
			}
		case OpRecvAll:
			for {
				_, err := h.recv(actor)
				if err == io.EOF {
					break
				}
				if err != nil {
					return false, err
				}
				if h.ss == nil {
					break
				}
			}
		case OpSend:
			if err := h.send(actor, op.N); err != nil && !op.Insist {
				return false, err
			}
			sendIdx = op.N + 1
		case OpSendAll:
			for ; sendIdx < len(h.plan.RespSizes); sendIdx++ {
				if err := h.send(actor, sendIdx); err != nil {
					return false, err
				}
			}
		case OpSetHeader, OpSendHeader:
			evInvoke(h.rpc, actor, op.Kind, 0, 0)
			var err error
			given := op.MD.Copy()
			if op.Kind == OpSetHeader {
				err = grpc.SetHeader(h.ctx, given)
			} else {
				err = grpc.SendHeader(h.ctx, given)
			}
			if given != nil && h.rpc%2 == 1 {
				// the handler goes on using its own map (to build the trailers,
				// say): what it set at the time of the call is what counts
				touch.Mutate(given, "CHANGED-AFTER-THE-CALL-", h.rpc)
			}
			evReturn(h.rpc, actor, op.Kind, 0, &OpResult{Err: err, MD: op.MD})
		case OpSetTrailer:
			evInvoke(h.rpc, actor, op.Kind, 0, 0)
			given := op.MD.Copy()
			err := grpc.SetTrailer(h.ctx, given)
			if given != nil && h.rpc%2 == 1 {
				touch.Mutate(given, "CHANGED-AFTER-THE-CALL-", h.rpc)
			}
			evReturn(h.rpc, actor, op.Kind, 0, &OpResult{Err: err, MD: op.MD})
		case OpSleep:
			evInvoke(h.rpc, actor, OpSleep, 0, int(op.D))
			simrt.Sleep(op.D)
			evReturn(h.rpc, actor, OpSleep, 0, nil)
		case OpAwaitCtx:
			evInvoke(h.rpc, actor, OpAwaitCtx, 0, 0)
			simrt.Recv(h.ctx.Done())
			evReturn(h.rpc, actor, OpAwaitCtx, 0, &OpResult{Err: h.ctx.Err()})
		case OpPause:
			evInvoke(h.rpc, actor, OpPause, op.N, 0)
			if op.Insist {
				// a handler that does not return promptly when its context
				// ends (it is busy with something that cannot be interrupted)
				h.ts.W.Gate(op.N).WaitOnly()
			} else {
				h.ts.W.Gate(op.N).Wait(h.ctx)
			}
			evReturn(h.rpc, actor, OpPause, op.N, nil)
		case OpProbe:
			evInvoke(h.rpc, actor, OpProbe, 0, 0)
			hi := handlerInfo(h.ts, h.ctx, "")
			// mutate what the accessor returned, in place and by adding keys ...
			md1, _ := grpctunnel.TunnelMetadataFromIncomingContext(h.ctx)
			touch.Mutate(md1, "MUTATED-BY-RPC-", h.rpc)
			simrt.Yield(simrt.ClassApp)
			// ... and read again
			md2, ok2 := grpctunnel.TunnelMetadataFromIncomingContext(h.ctx)
			evReturn(h.rpc, actor, OpProbe, 0, &OpResult{Extra: map[string]any{"info": hi, "tunnel_md_again": touch.CopyMD(md2), "tunnel_md_again_ok": ok2}})
		case OpStopServer:
			// an administrative "shut yourself down" RPC delivered over the
			// tunnel: Stop cancels this handler's context and returns without
			// waiting for the handler (which is the one calling it)
			evInvoke(h.rpc, actor, OpStopServer, 0, 0)
			t := h.ts.W.Tunnels[h.plan.Tunnel]
			simrt.Count(CntFaultStop, 1)
			simrt.Emit(simrt.Event{Kind: EvFault, S: "teardown", A: -1})
			callStops(t, 1)
			simrt.Emit(simrt.Event{Kind: EvTunnel, S: "fault-returned", A: int64(t.Idx), S2: "stop"})
			evReturn(h.rpc, actor, OpStopServer, 0, &OpResult{})
		case OpReturn:
			evInvoke(h.rpc, actor, OpReturn, 0, 0)
			if op.St == nil || op.St.Code == 0 {
				return true, nil
			}
			if e := plainError(op.St); e != nil {
				return true, e
			}
			return true, status.FromProto(op.St).Err()
		default:
			panic(fmt.Sprintf("handler script: bad op %d", op.Kind))
		}
	}
	return false, nil
}

// plainError: handlers also fail with errors that are not statuses (what a
// handler gets from its own I/O, or RecvMsg's io.EOF passed on); the caller
// must then see Unknown with the error's text. A scripted Unknown status
// without details stands for such an error (derived from the script, not
// drawn, so that recorded choice sequences keep their meaning).
func plainError(st *spb.Status) error {
	if st.Code != int32(codes.Unknown) || len(st.Details) != 0 {
		return nil
	}
	switch st.Message {
	case "":
		return io.EOF
	case "x":
		return io.ErrUnexpectedEOF
	case "boom":
		return fmt.Errorf("boom: %w", io.EOF)
	}
	return errors.New(st.Message)
}

// ---- gates --------------------------------------------------------------------

// Gate is a director-controlled barrier (paused consumers etc.).
type Gate struct {
	open bool
	ch   chan struct{}
}

func (w *World) Gate(id int) *Gate {
	w.mu.Lock()
	defer w.mu.Unlock()
	if w.gates == nil {
		w.gates = map[int]*Gate{}
	}
	g := w.gates[id]
	if g == nil {
		g = &Gate{ch: make(chan struct{})}
		w.gates[id] = g
	}
	return g
}

// Wait blocks until the gate is opened or ctx ends.
func (g *Gate) Wait(ctx context.Context) {
	select {
	case <-g.ch:
	case <-ctx.Done():
	}
	simrt.Yield(simrt.ClassWake)
}

// WaitOnly blocks until the gate is opened, whatever happens to any context.
func (g *Gate) WaitOnly() {
	<-g.ch
	simrt.Yield(simrt.ClassWake)
}

// Open opens the gate (idempotent).
func (w *World) OpenGate(id int) {
	g := w.Gate(id)
	w.mu.Lock()
	if !g.open {
		g.open = true
		close(g.ch)
	}
	w.mu.Unlock()
}

// ---- callers --------------------------------------------------------------------

// Conn abstraction the caller uses.
type ClientConn interface {
	grpc.ClientConnInterface
}

// RunCaller executes the caller side of plan on cc. It returns when both the
// sender and the receiver script have finished.
func (w *World) RunCaller(parent context.Context, cc grpc.ClientConnInterface, p *RPCPlan) {
	if p.Res == nil {
		p.Res = &RPCResult{}
	}
	res := p.Res
	if p.StartGate != 0 {
		w.Gate(p.StartGate).Wait(parent)
	}
	if p.StartDelay > 0 {
		simrt.Sleep(p.StartDelay)
	}
	ctx := parent
	md := metadata.MD{}
	for k, v := range p.ReqMD {
		md[k] = append([]string(nil), v...)
	}
	md.Set("sim-rpc", strconv.Itoa(p.ID))
	if p.GrpcTimeout == timeoutNoValues {
		if md["grpc-timeout"] == nil {
			md["grpc-timeout"] = []string{}
		}
	} else if p.GrpcTimeout != "" || p.timeoutClass != "" {
		md.Append("grpc-timeout", p.GrpcTimeout)
	}
	if p.Bare {
		w.mu.Lock()
		w.bareSet, w.bareID = true, p.ID
		w.mu.Unlock()
	} else if !p.NoOutgoingMD {
		ctx = metadata.NewOutgoingContext(ctx, md)
	}
	var cancel context.CancelFunc
	// Every other plan (by its shape and sizes, not by a draw) uses the
	// cause-carrying context constructors: the outcome of a cancelled or
	// expired RPC must not depend on them.
	withCause := (p.Shape+len(p.ReqSizes)+len(p.RespSizes))%2 == 1
	switch {
	case p.Deadline > 0 && withCause:
		ctx, cancel = context.WithTimeoutCause(ctx, p.Deadline, errCauseExpired)
	case p.Deadline > 0:
		ctx, cancel = context.WithTimeout(ctx, p.Deadline)
	case withCause:
		var cc context.CancelCauseFunc
		ctx, cc = context.WithCancelCause(ctx)
		cancel = func() { cc(errCauseCancelled) }
	default:
		ctx, cancel = context.WithCancel(ctx)
	}
	res.CallerCtx, res.CallerCancel = ctx, cancel
	defer func() {
		if !p.KeepCtx {
			cancel()
		}
	}()

	var opts []grpc.CallOption
	// A third of the plans use locations that still hold what an earlier call
	// left there (an application that re-uses one variable): a call overwrites
	// its locations whatever its outcome.
	if p.ID%3 == 0 {
		res.HdrTarget = metadata.MD{"stale-from-an-earlier-call": []string{"h"}}
		res.TlrTarget = metadata.MD{"stale-from-an-earlier-call": []string{"t"}}
		res.HdrTarget0 = metadata.MD{"stale-from-an-earlier-call": []string{"h"}}
		res.TlrTarget0 = metadata.MD{"stale-from-an-earlier-call": []string{"t"}}
	}
	// every other plan passes two locations of a kind
	two := p.ID%2 == 0
	if p.OptHeader {
		if two {
			opts = append(opts, grpc.Header(&res.HdrTarget0))
		}
		opts = append(opts, grpc.Header(&res.HdrTarget))
	}
	if p.OptTrailer {
		if two {
			opts = append(opts, grpc.Trailer(&res.TlrTarget0))
		}
		opts = append(opts, grpc.Trailer(&res.TlrTarget))
	}
	if p.OptPeer {
		opts = append(opts, grpc.Peer(&res.PeerTarget))
	}
	if p.OptChannel {
		opts = append(opts, grpctunnel.WithTunnelChannel(&res.ChanTarget))
	}
	if p.Creds != nil {
		ctx = context.WithValue(ctx, credCallKey{}, "call-"+strconv.Itoa(p.ID))
		opts = append(opts, grpc.PerRPCCredentials(p.Creds))
		if p.Creds2 != nil {
			// an interceptor's credentials and the application's own
			opts = append(opts, grpc.PerRPCCredentials(p.Creds2))
		}
	}

	if p.CancelAfter.Actor == "start" {
		simrt.Count(CntFaultCancelRPC, 1)
		evInvoke(p.ID, "c", OpCancel, 0, 0)
		cancel()
		evReturn(p.ID, "c", OpCancel, 0, nil)
	}

	if p.Shape == ShapeUnary && !p.UnaryViaStream {
		size := 0
		if len(p.ReqSizes) > 0 {
			size = p.ReqSizes[0]
		}
		req := &wrapperspb.BytesValue{Value: MakePayload(p.ID, 0, 0, size)}
		resp := &wrapperspb.BytesValue{}
		simrt.Yield(simrt.ClassApp)
		evInvoke(p.ID, "c", OpInvoke, 0, size)
		res.Started = true
		err := cc.Invoke(ctx, p.Method, req, resp, opts...)
		// Immediately after the terminal result: read the option targets (no
		// scheduling point in between).
		r := &OpResult{Err: err, Terminal: true, Len: len(resp.Value)}
		if err == nil {
			r.Match = matchPayload(resp.Value, p.ID, 1, 0)
			if !r.Match {
				r.Got = trunc(resp.Value, 64)
			}
		}
		r.Extra = map[string]any{"hdr_target": touch.LoadMD(&res.HdrTarget), "tlr_target": touch.LoadMD(&res.TlrTarget), "peer_target": peerString(&res.PeerTarget), "chan_target": touch.Load(&res.ChanTarget),
			"hdr_target0": touch.LoadMD(&res.HdrTarget0), "tlr_target0": touch.LoadMD(&res.TlrTarget0), "two_targets": two}
		evReturn(p.ID, "c", OpInvoke, 0, r)
		return
	}

	desc := &grpc.StreamDesc{StreamName: "x", ClientStreams: shapeClientStreams(p.Shape), ServerStreams: shapeServerStreams(p.Shape)}
	simrt.Yield(simrt.ClassApp)
	evInvoke(p.ID, "c", OpStart, 0, 0)
	cs, err := cc.NewStream(ctx, desc, p.Method, opts...)
	evReturn(p.ID, "c", OpStart, 0, &OpResult{Err: err, Terminal: err != nil})
	if err != nil {
		res.StartErr = err
		return
	}
	res.Started = true
	res.Stream = cs
	c := &cstream{w: w, p: p, cs: cs, cancel: cancel, ctx: ctx}
	done := make(chan struct{})
	if len(p.CallerSend) > 0 {
		simrt.Go("caller.sender", func() {
			if p.Role == "interest" {
				interestSender(func() { c.exec("cs", p.CallerSend) })
			} else {
				c.exec("cs", p.CallerSend)
			}
			close(done)
		})
	} else {
		close(done)
	}
	c.exec("cr", p.CallerRecv)
	simrt.Recv(done)
}

var (
	errCauseCancelled = errors.New("the operator pressed stop")
	errCauseExpired   = status.Error(codes.Unavailable, "the caller's own budget ran out")
)

func copyMD(md metadata.MD) metadata.MD { return touch.CopyMD(md) }

func peerString(p *peer.Peer) string { return touch.PeerString(p) }

type cstream struct {
	w       *World
	p       *RPCPlan
	cs      grpc.ClientStream
	ctx     context.Context
	cancel  context.CancelFunc
	nrecv   int
	sendIdx int
	recvBuf *wrapperspb.BytesValue // re-used receive message (see recvOne)
}

func (c *cstream) maybeCancel(actor string, i int, before bool) {
	ca := &c.p.CancelAfter
	if ca.Actor == actor && ca.Idx == i && ca.Before == before {
		simrt.Count(CntFaultCancelRPC, 1)
		evInvoke(c.p.ID, actor, OpCancel, 0, 0)
		c.cancel()
		evReturn(c.p.ID, actor, OpCancel, 0, nil)
	}
}

func (c *cstream) recvOne(actor string) (bool, error) {
	idx := c.nrecv
	simrt.Yield(simrt.ClassApp)
	evInvoke(c.p.ID, actor, OpRecv, idx, 0)
	m := &wrapperspb.BytesValue{}
	if c.p.ID%2 == 1 {
		// this caller receives every message into the same value
		if c.recvBuf == nil {
			c.recvBuf = &wrapperspb.BytesValue{}
		}
		m = c.recvBuf
	}
	err := c.cs.RecvMsg(m)
	res := &OpResult{Err: err}
	if err == nil {
		c.nrecv++
		res.Len = len(m.Value)
		res.Match = matchPayload(m.Value, c.p.ID, 1, idx)
		if !res.Match {
			res.Got = trunc(m.Value, 64)
		}
	}
	// A call whose response is not streamed is over when its one RecvMsg
	// returns, with or without an error: generated code (CloseAndRecv, unary
	// stubs) calls RecvMsg exactly once and takes a nil error for status OK.
	single := !shapeServerStreams(c.p.Shape)
	if err == nil && !single && idx == 0 && c.p.OptHeader {
		// headers are there no later than the first response message, also
		// in the locations given with grpc.Header (an interceptor reading
		// them while the stream is still open)
		r := c.p.Res
		res.Extra = map[string]any{"hdr_target_inflight": touch.LoadMD(&r.HdrTarget), "hdr_target0_inflight": touch.LoadMD(&r.HdrTarget0), "two_targets": c.p.ID%2 == 0}
	}
	if err != nil || single {
		res.Terminal = true
		// Immediately after the terminal result (no scheduling point in
		// between): trailers and option targets must be there.
		r := c.p.Res
		res.Extra = map[string]any{"trailer": copyMD(c.cs.Trailer()), "hdr_target": touch.LoadMD(&r.HdrTarget), "tlr_target": touch.LoadMD(&r.TlrTarget),
			"hdr_target0": touch.LoadMD(&r.HdrTarget0), "tlr_target0": touch.LoadMD(&r.TlrTarget0), "two_targets": c.p.ID%2 == 0,
			"peer_target": peerString(&r.PeerTarget), "chan_target": touch.Load(&r.ChanTarget)}
	}
	evReturn(c.p.ID, actor, OpRecv, idx, res)
	return err != nil || single, err
}

func (c *cstream) exec(actor string, ops []Op) {
	p := c.p
	for i, op := range ops {
		c.maybeCancel(actor, i, true)
		switch op.Kind {
		case OpSend:
			if !c.sendOne(actor, op.N) && !op.Insist {
				return
			}
			c.sendIdx = op.N + 1
		case OpSendAll:
			for ; c.sendIdx < len(p.ReqSizes); c.sendIdx++ {
				if !c.sendOne(actor, c.sendIdx) {
					return
				}
			}
		case OpCloseSend:
			simrt.Yield(simrt.ClassApp)
			evInvoke(p.ID, actor, OpCloseSend, 0, 0)
			err := c.cs.CloseSend()
			evReturn(p.ID, actor, OpCloseSend, 0, &OpResult{Err: err})
			if p.ID%4 == 1 {
				// closing the send side again is harmless in gRPC; whatever it
				// returns here, it must not put a second half-close on the wire
				_ = c.cs.CloseSend()
			}
		case OpRecv:
			if term, _ := c.recvOne(actor); term {
				c.maybeCancel(actor, i, false)
				continue
			}
		case OpRecvAll:
			for {
				if term, _ := c.recvOne(actor); term {
					break
				}
			}
		case OpHeader:
			simrt.Yield(simrt.ClassApp)
			evInvoke(p.ID, actor, OpHeader, 0, 0)
			md, err := c.cs.Header()
			res := &OpResult{Err: err, MD: copyMD(md)}
			if err == nil {
				// Header() returning the headers is the completion signal for
				// the grpc.Header target; after a failed Header() (context
				// ended) a late headers frame may still be written to it
				res.Extra = map[string]any{"hdr_target": touch.LoadMD(&p.Res.HdrTarget)}
			}
			evReturn(p.ID, actor, OpHeader, 0, res)
		case OpTrailer:
			simrt.Yield(simrt.ClassApp)
			evInvoke(p.ID, actor, OpTrailer, 0, 0)
			md := c.cs.Trailer()
			evReturn(p.ID, actor, OpTrailer, 0, &OpResult{MD: copyMD(md)})
		case OpCancel:
			simrt.Yield(simrt.ClassApp)
			simrt.Count(CntFaultCancelRPC, 1)
			evInvoke(p.ID, actor, OpCancel, 0, 0)
			c.cancel()
			evReturn(p.ID, actor, OpCancel, 0, nil)
		case OpSleep:
			evInvoke(p.ID, actor, OpSleep, 0, int(op.D))
			simrt.Sleep(op.D)
			evReturn(p.ID, actor, OpSleep, 0, nil)
		case OpPause:
			evInvoke(p.ID, actor, OpPause, op.N, 0)
			c.w.Gate(op.N).Wait(c.w.RootCtx)
			evReturn(p.ID, actor, OpPause, op.N, nil)
		case OpProbe:
			evInvoke(p.ID, actor, OpProbe, 0, 0)
			ctx := c.cs.Context()
			tm, ok := grpctunnel.TunnelMetadataFromOutgoingContext(ctx)
			tc := grpctunnel.TunnelChannelFromContext(ctx)
			first := touch.CopyMD(tm)
			touch.Mutate(tm, "MUTATED-BY-CALLER-", p.ID)
			simrt.Yield(simrt.ClassApp)
			tm2, ok2 := grpctunnel.TunnelMetadataFromOutgoingContext(ctx)
			evReturn(p.ID, actor, OpProbe, 0, &OpResult{Extra: map[string]any{"tunnel_md": first, "tunnel_md_ok": ok, "tunnel_md_again": touch.CopyMD(tm2), "tunnel_md_again_ok": ok2, "tunnel_chan": tc, "chan_target": touch.Load(&p.Res.ChanTarget)}})
		case OpReadTargets:
			evInvoke(p.ID, actor, OpReadTargets, 0, 0)
			r := p.Res
			evReturn(p.ID, actor, OpReadTargets, 0, &OpResult{Extra: map[string]any{"hdr_target": touch.LoadMD(&r.HdrTarget), "tlr_target": touch.LoadMD(&r.TlrTarget)}})
		default:
			panic(fmt.Sprintf("caller script: bad op %d", op.Kind))
		}
		c.maybeCancel(actor, i, false)
	}
}

func (c *cstream) sendOne(actor string, idx int) bool {
	p := c.p
	size := 0
	if idx < len(p.ReqSizes) {
		size = p.ReqSizes[idx]
	}
	m := &wrapperspb.BytesValue{Value: MakePayload(p.ID, 0, idx, size)}
	simrt.Yield(simrt.ClassApp)
	evInvoke(p.ID, actor, OpSend, idx, size)
	err := c.cs.SendMsg(m)
	evReturn(p.ID, actor, OpSend, idx, &OpResult{Err: err, Len: size})
	return err == nil
}
