package sim

import (
	"fmt"
	"time"

	spb "google.golang.org/genproto/googleapis/rpc/status"
	"google.golang.org/grpc/metadata"
)

// Size classes (serialised sizes) biased to chunk (16384) and window (65536) boundaries.
var boundarySizes = []int{0, 3, 16383, 16384, 16385, 32768, 65535, 65536, 65537, 131071, 131072, 131073}

// GenValueLen draws a message value length. budget bounds the serialised size.
func GenValueLen(c *Chooser, budget int, big bool) int {
	var ser int
	switch k := c.Intn(10, "szclass"); {
	case k <= 2: // small
		ser = 3 + c.Intn(200, "szsmall")
	case k <= 6: // boundary
		ser = boundarySizes[c.Intn(len(boundarySizes), "szbound")]
	case k <= 7:
		ser = 0
	case k == 8:
		ser = 3 + c.Intn(200000, "szmid")
	default:
		if big {
			ser = (1 << 20) + c.Intn(7<<20, "szbig")
		} else {
			ser = 65536 + c.Intn(4*65536, "szlarge")
		}
	}
	if ser > budget {
		ser = budget
	}
	if ser < 3 {
		return 0
	}
	if l, ok := ValueLenForSerialized(ser); ok {
		return l
	}
	l, _ := ValueLenForSerialized(ser + 1)
	return l
}

// GenOpts steers GenPlan.
type GenOpts struct {
	MaxMsgs    int
	ByteBudget int // per direction per RPC (serialised)
	Big        bool
	Shapes     []int // allowed shapes (nil = all)
	SmallOnly  bool
	NoMD       bool
}

// GenPlan draws a normal (fault-free) RPC plan.
func GenPlan(c *Chooser, id int, o GenOpts) *RPCPlan {
	p := &RPCPlan{ID: id, Res: &RPCResult{}}
	p.CancelAfter.Idx = -1
	if len(o.Shapes) > 0 {
		p.Shape = o.Shapes[c.Intn(len(o.Shapes), "shape")]
	} else {
		p.Shape = c.Intn(4, "shape")
	}
	p.Method = shapeMethods[p.Shape]
	if o.MaxMsgs <= 0 {
		o.MaxMsgs = 6
	}
	if o.ByteBudget <= 0 {
		o.ByteBudget = 300000
	}
	nreq, nresp := 1, 1
	if shapeClientStreams(p.Shape) {
		nreq = c.Intn(o.MaxMsgs+1, "nreq")
	}
	if shapeServerStreams(p.Shape) {
		nresp = c.Intn(o.MaxMsgs+1, "nresp")
	}
	gen := func(n int, label string) []int {
		out := make([]int, n)
		left := o.ByteBudget
		for i := range out {
			if o.SmallOnly {
				out[i] = c.Intn(64, label)
			} else {
				out[i] = GenValueLen(c, left, o.Big)
			}
			left -= SerializedLen(out[i])
			if left < 0 {
				left = 0
			}
		}
		return out
	}
	p.ReqSizes = gen(nreq, "req")
	p.RespSizes = gen(nresp, "resp")
	if !o.NoMD && c.Intn(3, "hasmd") == 0 {
		p.ReqMD = GenMD(c, 3, false)
	}
	DefaultScripts(c, p)
	return p
}

// DefaultScripts fills the caller and handler scripts for the plan's shape.
func DefaultScripts(c *Chooser, p *RPCPlan) {
	p.CallerSend, p.CallerRecv, p.Handler, p.HandlerSend = nil, nil, nil, nil
	switch p.Shape {
	case ShapeUnary:
		p.Handler = []Op{{Kind: OpRecv}, {Kind: OpSend, N: 0}, {Kind: OpReturn}}
	case ShapeClientStream:
		p.CallerSend = []Op{{Kind: OpSendAll}, {Kind: OpCloseSend}}
		p.CallerRecv = []Op{{Kind: OpRecvAll}}
		p.Handler = []Op{{Kind: OpRecvAll}, {Kind: OpSend, N: 0}, {Kind: OpReturn}}
	case ShapeServerStream:
		p.CallerSend = []Op{{Kind: OpSend, N: 0}, {Kind: OpCloseSend}}
		p.CallerRecv = []Op{{Kind: OpRecvAll}}
		p.Handler = []Op{{Kind: OpRecv}, {Kind: OpSendAll}, {Kind: OpReturn}}
	case ShapeBidi:
		p.CallerSend = []Op{{Kind: OpSendAll}, {Kind: OpCloseSend}}
		p.CallerRecv = []Op{{Kind: OpRecvAll}}
		switch c.Intn(3, "hmode") {
		case 0: // sequential
			p.Handler = []Op{{Kind: OpRecvAll}, {Kind: OpSendAll}, {Kind: OpReturn}}
		case 1: // concurrent
			p.Handler = []Op{{Kind: OpRecvAll}}
			p.HandlerSend = []Op{{Kind: OpSendAll}}
		case 2: // ping-pong, then the rest
			var ops []Op
			n := len(p.ReqSizes)
			if len(p.RespSizes) < n {
				n = len(p.RespSizes)
			}
			for i := 0; i < n; i++ {
				ops = append(ops, Op{Kind: OpRecv}, Op{Kind: OpSend, N: i})
			}
			ops = append(ops, Op{Kind: OpRecvAll}, Op{Kind: OpSendAll}, Op{Kind: OpReturn})
			p.Handler = ops
		}
	}
}

var mdKeyAlphabet = "abcdefghijklmnopqrstuvwxyz0123456789_.-"

// GenMD draws legal gRPC metadata. With bin, "-bin" keys carry arbitrary bytes.
func GenMD(c *Chooser, maxKeys int, bin bool) metadata.MD {
	md := metadata.MD{}
	n := 1 + c.Intn(maxKeys, "mdkeys")
	for i := 0; i < n; i++ {
		kl := 1 + c.Intn(8, "mdklen")
		k := make([]byte, kl)
		for j := range k {
			k[j] = mdKeyAlphabet[c.Intn(len(mdKeyAlphabet), "mdkch")]
		}
		key := "x" + string(k) + fmt.Sprint(i)
		isBin := bin && c.Intn(3, "mdbin") == 0
		if isBin {
			key += "-bin"
		}
		nv := 1 + c.Intn(3, "mdnv")
		for v := 0; v < nv; v++ {
			vl := c.Intn(12, "mdvlen")
			val := make([]byte, vl)
			for j := range val {
				if isBin {
					val[j] = byte(c.Intn(256, "mdvb"))
				} else {
					val[j] = byte(0x20 + c.Intn(0x5f, "mdvc"))
				}
			}
			md.Append(key, string(val))
		}
	}
	return md
}

// GenStatus draws a status (nil = OK).
func GenStatus(c *Chooser) *spb.Status {
	code := c.Intn(17, "code")
	if code == 0 {
		return nil
	}
	msgs := []string{"", "boom", "héllo wörld ✓", "x"}
	return &spb.Status{Code: int32(code), Message: msgs[c.Intn(len(msgs), "stmsg")]}
}

// GenCarrier draws a carrier configuration.
func GenCarrier(c *Chooser) CarrierCfg {
	var cfg CarrierCfg
	switch c.Intn(5, "carcap") {
	case 0: // unbounded
	case 1:
		cfg.CapFrames = 1
	case 2:
		cfg.CapFrames = 4
	case 3:
		cfg.CapBytes = 65536
	case 4:
		cfg.CapFrames = 2 + c.Intn(30, "carcapn")
	}
	switch c.Intn(6, "carlat") {
	case 0, 1, 2, 3: // none
	case 4:
		cfg.LatC2S = time.Duration(1+c.Intn(5000, "latc2s")) * time.Microsecond
		cfg.LatS2C = time.Duration(1+c.Intn(5000, "lats2c")) * time.Microsecond
	case 5: // one very slow direction
		if c.Intn(2, "latdir") == 0 {
			cfg.LatC2S = 200 * time.Millisecond
		} else {
			cfg.LatS2C = 200 * time.Millisecond
		}
	}
	if c.Intn(4, "carbug") == 3 {
		cfg.Buggify = 5 + c.Intn(20, "carbugpct")
	}
	return cfg
}

func (cfg CarrierCfg) String() string {
	return fmt.Sprintf("cap(frames=%d,bytes=%d) lat(c2s=%v,s2c=%v) buggify=%d%%", cfg.CapFrames, cfg.CapBytes, cfg.LatC2S, cfg.LatS2C, cfg.Buggify)
}

func planDesc(p *RPCPlan) map[string]any {
	d := map[string]any{"id": p.ID, "shape": shapeNames[p.Shape], "req_sizes": p.ReqSizes, "resp_sizes": p.RespSizes, "tunnel": p.Tunnel}
	if p.Method != shapeMethods[p.Shape] {
		d["method"] = p.Method
	}
	if p.Deadline > 0 {
		d["deadline"] = p.Deadline.String()
	}
	if p.CancelAfter.Idx >= 0 || p.CancelAfter.Actor == "start" {
		d["cancel"] = fmt.Sprintf("%s@%d before=%v", p.CancelAfter.Actor, p.CancelAfter.Idx, p.CancelAfter.Before)
	}
	if p.Via != "" {
		d["via"] = p.Via
	}
	return d
}
