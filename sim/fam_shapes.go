package sim

import (
	"fmt"
	"io"

	"google.golang.org/grpc/codes"

	"github.com/jhump/grpctunnel/tunnelpb"

	"verif/simrt"
)

// Family shapes (C16): call shapes enforced on both ends.
//   mode 0: raw client against the real server - k request messages on each shape
//   mode 1: raw server against the real client - k response messages on each shape
//   mode 2: applications that send twice on a non-streaming side

func init() {
	register(&Family{
		Name:       "shapes",
		Run:        runShapes,
		Oracles:    []func(*World, *History){OracleC16, OracleInvocations, OracleLeak},
		Nontrivial: func(w *World, h *History) bool { return h.Derived["probe.shape_case_ran"] > 0 },
	})
}

type shapeCase struct {
	mode      int
	shape     int
	nmsgs     int
	chunk     int
	afterHalf int // messages sent after the half-close / close frame
	rc        *RawClient
	rs        *RawServer
	sid       int64
	closeCode int32
	done      bool
}

func runShapes(w *World, rs *RunSpec) {
	c := w.C
	mode := rs.P("mode", -1)
	if mode < 0 {
		mode = c.Intn(3, "shapemode")
	}
	sc := &shapeCase{mode: mode}
	w.shapeCase = sc
	sc.shape = c.Intn(4, "shape")
	sc.nmsgs = c.Intn(5, "nmsgs")
	sc.chunk = Pick(c, "chunk", 0, 1, 7, 16384)
	sc.afterHalf = 0
	if c.Intn(3, "afterhalf") == 2 {
		sc.afterHalf = 1 + c.Intn(2, "nafter")
	}
	msgLen := Pick(c, "shmsglen", 0, 5, 40, 20000)
	if msgLen > 9000 && sc.nmsgs+sc.afterHalf > 3 {
		msgLen = 9000 // a raw peer that does not wait for credit must stay inside one window
	}
	if sc.chunk > 0 && sc.chunk < 100 && msgLen > 40 {
		msgLen = 40 // tiny chunks of a big message are just many frames
	}
	cfg := RawCfg{Reverse: c.Intn(2, "rawrev") == 1, Negotiate: c.Intn(4, "rawneg") != 0, DisableFC: c.Intn(6, "rawdisfc") == 5}
	cfg.Carrier = GenCarrier(c)
	cfg.Carrier.LatC2S, cfg.Carrier.LatS2C = 0, 0
	w.Desc["mode"] = [...]string{"raw-client-vs-real-server", "raw-server-vs-real-client", "application-sends-twice"}[mode]
	w.Desc["shape"] = shapeNames[sc.shape]
	w.Desc["n_msgs"] = sc.nmsgs
	w.Desc["after_half_close"] = sc.afterHalf
	w.Desc["chunk"] = sc.chunk
	w.Desc["raw"] = fmt.Sprintf("reverse=%v negotiate=%v real-end-disables-fc=%v", cfg.Reverse, cfg.Negotiate, cfg.DisableFC)
	rev := tunnelpb.ProtocolRevision_REVISION_ZERO
	if cfg.Negotiate && !cfg.DisableFC {
		rev = tunnelpb.ProtocolRevision_REVISION_ONE
	}
	switch mode {
	case 0:
		p := rawPlan(w, 0, sc.shape)
		// the handler reads until its stream ends, whatever the shape
		p.Handler = []Op{{Kind: OpRecvAll}, {Kind: OpSendAll}, {Kind: OpReturn}}
		if !shapeServerStreams(sc.shape) {
			p.RespSizes = []int{5}
		} else {
			p.RespSizes = []int{5, 6}
		}
		sizes := make([]int, sc.nmsgs+sc.afterHalf)
		for i := range sizes {
			sizes[i] = msgLen
		}
		p.ReqSizes = sizes
		script := func(rc *RawClient) {
			sc.rc = rc
			if cfg.Negotiate {
				rc.WaitFor(rc.HaveSettings)
			}
			sc.sid = 1
			rc.Send(FNew(1, shapeMethods[sc.shape], 0, rev, 65536, nil))
			for i := 0; i < sc.nmsgs; i++ {
				rc.SendMessage(1, RequestBytes(0, i, msgLen), sc.chunk)
			}
			rc.Send(FHalf(1))
			for i := 0; i < sc.afterHalf; i++ {
				rc.SendMessage(1, RequestBytes(0, sc.nmsgs+i, msgLen), sc.chunk)
			}
			rc.WaitFor(func() bool { ok, _, _ := rc.Closed(1); return ok })
			_, sc.closeCode, _ = rc.Closed(1)
			sc.done = true
			// the tunnel must still work
			p2 := rawPlan(w, 60, ShapeUnary)
			rc.Send(FNew(9, "/sim.Test/Unary", 60, rev, 65536, nil))
			rc.SendMessage(9, RequestBytes(60, 0, p2.ReqSizes[0]), 0)
			rc.Send(FHalf(9))
			rc.WaitFor(func() bool { ok, _, _ := rc.Closed(9); return ok })
			rc.Hangup()
		}
		w.OpenRawClient(cfg, script)
		w.DrainAndProbe()
	case 1:
		// the real client calls; the raw server answers with nmsgs response messages
		p := GenPlan(c, 0, GenOpts{MaxMsgs: 1, SmallOnly: true, NoMD: true, Shapes: []int{sc.shape}})
		p.ReqSizes = make([]int, len(p.ReqSizes))
		p.Role = "raw" // served by a raw peer: there is no handler
		script := func(rsv *RawServer) {
			sc.rs = rsv
			if cfg.Negotiate {
				rsv.Send(SSettings(-1, 65536, tunnelpb.ProtocolRevision_REVISION_ZERO, tunnelpb.ProtocolRevision_REVISION_ONE))
			}
			rsv.WaitFor(func() bool { return len(rsv.NewStreams()) > 0 })
			ns := rsv.NewStreams()
			if len(ns) == 0 {
				return
			}
			sid := ns[0].StreamId
			sc.sid = sid
			rsv.WaitFor(func() bool { return rsv.HalfClosed(sid) })
			rsv.Send(SHeaders(sid, nil))
			for i := 0; i < sc.nmsgs; i++ {
				rsv.SendMessage(sid, ResponseBytes(0, i, msgLen), sc.chunk)
			}
			rsv.Send(SClose(sid, 0, ""))
			for i := 0; i < sc.afterHalf; i++ {
				rsv.SendMessage(sid, ResponseBytes(0, sc.nmsgs+i, msgLen), sc.chunk)
			}
			sc.done = true
			rsv.WaitFor(func() bool { return rsv.Ended })
		}
		_, t, err := w.OpenRawServer(cfg, script)
		if err != nil || (t.Chan == nil && !cfg.Reverse) {
			return
		}
		if cfg.Reverse {
			// wait for the registry
			simrt.AwaitStall()
			if len(w.RevChans) == 0 {
				return
			}
			t.Chan = w.RevChans[0]
		}
		p.Tunnel = t.Idx
		cs := w.StartCallers([]*RPCPlan{p})
		cs.Wait()
		w.DrainAndProbe()
		t.Chan.Close()
	case 2:
		tc := drawTunnelCfg(c, false)
		tc.Carrier.LatC2S, tc.Carrier.LatS2C = 0, 0
		describeTunnel(w, tc)
		t, err := w.OpenTunnel(tc)
		if err != nil {
			return
		}
		// caller side: drive a non-client-streaming method through NewStream and send twice
		p := GenPlan(c, 0, GenOpts{MaxMsgs: 1, SmallOnly: true, NoMD: true, Shapes: []int{ShapeUnary, ShapeServerStream}})
		p.Tunnel = t.Idx
		p.Role = "shape"
		p.UnaryViaStream = true
		// (an application that keeps trying: every send after the first is refused)
		p.ReqSizes = []int{5, 6, 7, 8}
		p.CallerSend = []Op{{Kind: OpSend, N: 0, Insist: true}, {Kind: OpSend, N: 1, Insist: true}, {Kind: OpSend, N: 2, Insist: true}, {Kind: OpSend, N: 3, Insist: true}, {Kind: OpCloseSend}}
		p.CallerRecv = []Op{{Kind: OpRecvAll}}
		// handler side: a non-server-streaming method whose handler sends twice
		q := GenPlan(c, 1, GenOpts{MaxMsgs: 1, SmallOnly: true, NoMD: true, Shapes: []int{ShapeClientStream}})
		q.Tunnel = t.Idx
		q.Role = "shape"
		q.RespSizes = []int{5, 6, 7, 8}
		q.Handler = []Op{{Kind: OpRecvAll}, {Kind: OpSend, N: 0, Insist: true}, {Kind: OpSend, N: 1, Insist: true}, {Kind: OpSend, N: 2, Insist: true}, {Kind: OpSend, N: 3, Insist: true}, {Kind: OpReturn}}
		q.HandlerSend = nil
		sc.done = true
		cs := w.StartCallers([]*RPCPlan{p, q})
		cs.Wait()
		w.DrainAndProbe()
	}
	w.FullShutdown()
}

// OracleC16: call shapes are enforced on both ends.
func OracleC16(w *World, h *History) {
	sc := w.shapeCase
	if sc == nil || !sc.done {
		return
	}
	h.Derived["probe.shape_case_ran"]++
	det := map[string]string{"mode": fmt.Sprint(w.Desc["mode"]), "shape": shapeNames[sc.shape]}
	switch sc.mode {
	case 0:
		r := h.RPCs[0]
		seen := 0
		if r != nil {
			for _, o := range r.OpsOf(OpRecv, "h") {
				if o.OK() {
					seen++
				}
			}
		}
		if !shapeClientStreams(sc.shape) {
			if seen > 1 {
				w.AddViolation("C16", "handler-saw-extra-request", fmt.Sprintf("the handler of non-client-streaming method %s observed %d request messages", shapeMethods[sc.shape], seen), det, 0)
			}
			if sc.nmsgs >= 2 && codes.Code(sc.closeCode) != codes.InvalidArgument {
				w.AddViolation("C16", "extra-request-wrong-status", fmt.Sprintf("the peer sent %d request messages to non-client-streaming method %s; the RPC ended with code %v instead of InvalidArgument", sc.nmsgs, shapeMethods[sc.shape], codes.Code(sc.closeCode)), det, 0)
			}
			if sc.nmsgs == 1 && sc.closeCode != 0 {
				w.AddViolation("C16", "extra-request-wrong-status", fmt.Sprintf("one request message (plus %d after the half-close, which must be ignored) to %s ended with code %v", sc.afterHalf, shapeMethods[sc.shape], codes.Code(sc.closeCode)), det, 0)
			}
		} else {
			if seen != sc.nmsgs && sc.closeCode == 0 {
				w.AddViolation("C16", "handler-saw-extra-request", fmt.Sprintf("client-streaming method %s: %d request messages before the half-close, the handler observed %d", shapeMethods[sc.shape], sc.nmsgs, seen), det, 0)
			}
		}
		// the tunnel still works
		if ok, code, _ := sc.rc.Closed(9); !ok || code != 0 {
			w.AddViolation("C16", "shape-violation-collateral", fmt.Sprintf("after the shape case a fresh RPC on the same tunnel did not complete OK (closed=%v code=%d)", ok, code), det, 0)
		}
	case 1:
		r := h.RPCs[0]
		if r == nil {
			return
		}
		term := r.Terminal()
		if term == nil {
			return
		}
		ok := term.Res.Err == nil || (term.Op == OpRecv && term.Res.Err == io.EOF)
		got := 0
		for _, o := range r.OpsOf(OpRecv, "cr") {
			if o.OK() {
				got++
			}
		}
		if !shapeServerStreams(sc.shape) {
			// success of a call with a non-streaming response = the caller was handed
			// a response message (Invoke returned nil / the first Recv returned a
			// message) and then a clean end; an immediate io.EOF is an error value
			// to the calling code (CloseAndRecv returns it), not success
			if term.Op == OpRecv {
				ok = ok && got >= 1
			}
			if ok && sc.nmsgs != 1 {
				w.AddViolation("C16", "caller-success-on-bad-count", fmt.Sprintf("the peer sent %d response messages for non-server-streaming method %s and an OK close, and the caller got success", sc.nmsgs, shapeMethods[sc.shape]), det, term.Ret)
			}
			if !ok && sc.nmsgs == 1 {
				w.AddViolation("C16", "caller-failure-on-good-count", fmt.Sprintf("the peer sent exactly one response message and an OK close (plus %d frames after the close, which must be ignored) for %s, and the caller got %v", sc.afterHalf, shapeMethods[sc.shape], term.Res.Err), det, term.Ret)
			}
		} else if ok && got != sc.nmsgs {
			w.AddViolation("C16", "caller-success-on-bad-count", fmt.Sprintf("server-streaming method %s: the peer sent %d response messages before its OK close, the caller received %d", shapeMethods[sc.shape], sc.nmsgs, got), det, term.Ret)
		}
	case 2:
		// second application send refused, and not on the wire
		for _, id := range []int{0, 1} {
			r := h.RPCs[id]
			if r == nil {
				continue
			}
			actor, dirToServer, what := "cs", true, "request"
			if id == 1 {
				actor, dirToServer, what = "h", false, "response"
			}
			sends := r.OpsOf(OpSend, actor)
			for i := 1; i < len(sends); i++ {
				if sends[i].OK() {
					w.AddViolation("C16", "second-send-accepted", fmt.Sprintf("rpc %d: the application's %s send number %d on a non-streaming side returned nil", id, what, i+1), det, sends[i].Ret)
					break
				}
			}
			envelopes := 0
			for _, f := range h.Frames {
				if f.Info == nil || f.Info.ToServer != dirToServer {
					continue
				}
				if st := streamOfRPC(h, id); st != nil && f.Info.Conn == st.Conn && f.Info.StreamID == st.StreamID {
					if f.Info.Type == FReqMsg || f.Info.Type == FRespMsg {
						envelopes++
					}
				}
			}
			if envelopes > 1 {
				w.AddViolation("C16", "second-send-on-wire", fmt.Sprintf("rpc %d: %d %s message envelopes on the wire for a non-streaming side", id, envelopes, what), det, 0)
			}
		}
	}
}

// streamOfRPC finds the new_stream frame of an RPC.
func streamOfRPC(h *History, rpc int) *FrameInfo {
	for _, f := range h.Frames {
		if f.Info != nil && f.Info.Type == FNewStream && f.Info.RPC == rpc {
			return f.Info
		}
	}
	return nil
}
