package sim

import (
	"fmt"
	"strings"
	"time"

	spb "google.golang.org/genproto/googleapis/rpc/status"
	"google.golang.org/grpc/metadata"

	"verif/simrt"
)

// Family bystander (C03): bystander RPCs that must complete normally while one
// or two disturber RPCs fail, are rejected, cancelled, expire, never read, or
// carry invalid strings.

const (
	DistHandlerError = iota
	DistUnknownService
	DistUnknownMethod
	DistMalformedMethod
	DistAfterShutdown
	DistCancelled
	DistExpired
	DistCallerNeverReads
	DistHandlerNeverReads
	DistInvalidStrings
	NumDisturbers
)

var distNames = [...]string{"handler-error", "unknown-service", "unknown-method", "malformed-method", "after-shutdown", "cancelled", "expired",
	"caller-never-reads", "handler-never-reads", "invalid-strings"}

func init() {
	register(&Family{
		Name:    "bystander",
		Run:     runBystander,
		Oracles: []func(*World, *History){OracleHungRoles("C03", "bystander", "fresh"), OracleBystanders("C03"), OracleC01, OracleLeak},
		Nontrivial: func(w *World, h *History) bool {
			return h.Derived["probe.disturber_overlapped_bystander"] > 0
		},
	})
}

func runBystander(w *World, rs *RunSpec) {
	c := w.C
	cfg := drawTunnelCfg(c, false)
	describeTunnel(w, cfg)
	t, err := w.OpenTunnel(cfg)
	if err != nil {
		w.Violate("C11", "shape-failed", "tunnel could not be established: "+err.Error(), map[string]string{"topology": topoNames[cfg.Topo], "fc": fcNames[cfg.FC]})
		return
	}
	fcOn := cfg.FC == FCBoth
	nb := 2 + c.Intn(4, "nbystanders")
	gated := c.Intn(2, "gated") == 1
	nd := 1 + c.Intn(2, "ndisturbers")
	var kinds []int
	for i := 0; i < nd; i++ {
		k := rs.P("disturber", -1)
		if k < 0 {
			k = c.Intn(NumDisturbers, "dkind")
		}
		if (k == DistCallerNeverReads || k == DistHandlerNeverReads) && !fcOn {
			k = DistHandlerError // the no-head-of-line-blocking clause is about flow control
		}
		if k == DistInvalidStrings && rs.P("nonutf8", 0) == 0 {
			k = DistUnknownMethod // invalid strings are a separate configuration (known finding)
		}
		kinds = append(kinds, k)
	}
	shutdown := false
	for _, k := range kinds {
		if k == DistAfterShutdown {
			shutdown = true
			gated = true
		}
	}
	var bplans []*RPCPlan
	for i := 0; i < nb; i++ {
		p := bystanderPlan(c, i, t.Idx)
		if gated {
			// park the handler once it has read its first request, so that the
			// RPC is in flight while the disturbance happens
			ops := []Op{}
			done := false
			for _, o := range p.Handler {
				ops = append(ops, o)
				if (o.Kind == OpRecv || o.Kind == OpRecvAll) && !done {
					ops = append(ops, Op{Kind: OpPause, N: 700})
					done = true
				}
			}
			p.Handler = ops
			if len(p.HandlerSend) > 0 {
				p.HandlerSend = append([]Op{{Kind: OpPause, N: 700}}, p.HandlerSend...)
			}
		}
		bplans = append(bplans, p)
	}
	var dplans []*RPCPlan
	var dnames []string
	neverReads := false
	for i, k := range kinds {
		p := GenPlan(c, 50+i, GenOpts{MaxMsgs: 4, ByteBudget: 100000})
		p.Tunnel = t.Idx
		p.Role = "disturber"
		dnames = append(dnames, distNames[k])
		switch k {
		case DistHandlerError:
			st := GenStatus(c)
			if st == nil {
				st = &spb.Status{Code: 13, Message: "boom"}
			}
			at := c.Intn(len(p.Handler), "derrat")
			p.Handler = append(append([]Op{}, p.Handler[:at]...), Op{Kind: OpReturn, St: st})
			p.HandlerSend = nil
		case DistUnknownService:
			p.Method = "/nosuch.Service/Method"
		case DistUnknownMethod:
			p.Method = "/sim.Test/NoSuchMethod"
		case DistMalformedMethod:
			p.Method = Pick(c, "malformed", "x", "/", "a/", "/a", "//", "")
			if rs.P("emptymethod", 0) == 1 {
				p.Method = ""
			}
		case DistAfterShutdown:
		case DistCancelled:
			p.CancelAfter.Actor = "start"
			if p.Shape != ShapeUnary && c.Intn(2, "dcmid") == 1 {
				p.CancelAfter.Actor = "cr"
				p.CancelAfter.Idx = 0
				p.CancelAfter.Before = true
			}
		case DistExpired:
			p.Deadline = time.Duration(1+c.Intn(5, "ddl")) * time.Millisecond
			p.Handler = append([]Op{{Kind: OpSleep, D: 20 * time.Millisecond}}, p.Handler...)
		case DistCallerNeverReads:
			p.Shape = ShapeServerStream
			p.Method = shapeMethods[p.Shape]
			p.ReqSizes = []int{10}
			p.RespSizes = []int{65531, 65531, 65531, 100}
			DefaultScripts(c, p)
			p.CallerRecv = []Op{{Kind: OpPause, N: 710}} // never reads until released
			neverReads = true
		case DistHandlerNeverReads:
			p.Shape = ShapeClientStream
			p.Method = shapeMethods[p.Shape]
			p.ReqSizes = []int{65531, 65531, 65531, 100}
			p.RespSizes = []int{1}
			DefaultScripts(c, p)
			p.Handler = []Op{{Kind: OpPause, N: 710}, {Kind: OpReturn, St: &spb.Status{Code: 10, Message: "gave up"}}}
			neverReads = true
		case DistInvalidStrings:
			p.ReqMD = metadata.Pairs("bad-bin", string([]byte{0xff, 0xfe, 0x80}))
		}
		dplans = append(dplans, p)
	}
	w.Desc["disturbers"] = dnames
	w.Desc["gated"] = gated
	var descs []any
	for _, p := range append(append([]*RPCPlan{}, bplans...), dplans...) {
		d := planDesc(p)
		d["role"] = p.Role
		descs = append(descs, d)
	}
	w.Desc["rpcs"] = descs

	bcs := w.StartCallers(bplans)
	if gated {
		// until every bystander's handler is parked at its gate (frames may be
		// in flight on a carrier with latency, so mere idleness is not enough)
		simrt.AwaitStall()
		simrt.Emit(simrt.Event{Kind: EvCheckpoint, S: "bystanders-in-flight"})
	}
	if shutdown {
		simrt.Count(CntFaultInitiateShutdown, 1)
		if t.RevServer != nil {
			simrt.Go("graceful", func() {
				t.RevServer.GracefulStop()
				simrt.Emit(simrt.Event{Kind: EvTunnel, S: "graceful-stop-returned", A: int64(t.Idx)})
			})
			simrt.AwaitIdle()
		} else {
			t.Handler.InitiateShutdown()
		}
		simrt.Emit(simrt.Event{Kind: EvCheckpoint, S: "shutdown-initiated"})
	}
	dcs := w.StartCallers(dplans)
	if gated || neverReads {
		// let the disturbance play out completely while the bystanders are parked
		// / the never-reading RPC sits on its full window
		simrt.AwaitStall()
		simrt.Emit(simrt.Event{Kind: EvCheckpoint, S: "disturbance-settled", S2: simrt.LiveStacks()})
		w.OpenGate(700)
	}
	if !bcs.Wait() {
		simrt.Emit(simrt.Event{Kind: EvCheckpoint, S: "bystanders-stalled", S2: simrt.LiveStacks()})
	}
	simrt.Emit(simrt.Event{Kind: EvCheckpoint, S: "bystanders-done"})
	// release the never-reading RPCs; they are allowed to end any way they like
	w.OpenGate(710)
	for _, p := range dplans {
		if p.Res != nil && p.Res.CallerCancel != nil && neverReads {
			p.Res.CallerCancel()
		}
	}
	dcs.Wait()
	w.DrainAndProbe()
	if !shutdown {
		fresh := bystanderPlan(c, 200, t.Idx)
		fresh.Role = "fresh"
		fcs := w.StartCallers([]*RPCPlan{fresh})
		fcs.Wait()
	}
	w.DrainAndProbe2("drained-2")
	w.FullShutdown()
}

// OracleHungRoles is OracleHung restricted to RPCs with one of the given roles,
// evaluated at the "bystanders-done" mark: a bystander that had not finished
// when the run stalled was blocked by something.
func OracleHungRoles(prop string, roles ...string) func(w *World, h *History) {
	return func(w *World, h *History) {
		var stall int64
		stacks := ""
		for _, e := range h.Evs {
			if e.Kind == EvCheckpoint && e.S == "bystanders-stalled" && stall == 0 {
				stall = e.Seq
				stacks = e.S2
			}
		}
		overl := false
		for _, id := range h.RPCIDs {
			r := h.RPCs[id]
			if r.Plan != nil && r.Plan.Role == "disturber" && len(r.Ops) > 0 {
				overl = true
			}
		}
		if overl {
			h.Derived["probe.disturber_overlapped_bystander"]++
		}
		// the hol witness of the whole run: either at the stall or at the drain
		hol := holFromStacks(stacks)
		for _, e := range h.Evs {
			if e.Kind == EvCheckpoint && (e.S == "drained" || e.S == "disturbance-settled") && holFromStacks(e.S2) != "no" {
				hol = holFromStacks(e.S2)
			}
		}
		h.holWitness = hol
		if stall == 0 {
			return
		}
		for _, id := range h.RPCIDs {
			r := h.RPCs[id]
			if r.Plan == nil {
				continue
			}
			match := false
			for _, ro := range roles {
				if r.Plan.Role == ro {
					match = true
				}
			}
			if !match {
				continue
			}
			term := r.Terminal()
			if term != nil && term.Ret < stall {
				continue
			}
			w.AddViolation(prop, "head-of-line-blocked", fmt.Sprintf("rpc %d (%s, %s) had not completed when the run stalled (#%d: nothing runnable, every timer fired) although its own peers keep reading",
				id, r.Plan.Role, shapeNames[r.Plan.Shape], stall), map[string]string{"hol": hol, "disturbers": strings.Join(w.Desc["disturbers"].([]string), "+")}, stall)
		}
	}
}
