package sim

import (
	"context"
	"fmt"
	"math"
	"strings"
	"time"

	"google.golang.org/grpc/metadata"

	"verif/simrt"
)

// Family timeout (C18): grpc-timeout request headers become exactly that handler deadline.

func init() {
	register(&Family{
		Name:       "timeout",
		Run:        runTimeout,
		Oracles:    []func(*World, *History){OracleC18, OracleLeak},
		Nontrivial: func(w *World, h *History) bool { return h.Derived["probe.timeout_headers_checked"] > 0 },
	})
}

// refTimeout is an independent implementation of the gRPC wire specification:
// Timeout = TimeoutValue TimeoutUnit; TimeoutValue = positive integer as ASCII
// string of at most 8 digits; TimeoutUnit = H / M / S / m / u / n. The result
// saturates at the largest representable duration.
func refTimeout(s string) (time.Duration, bool) {
	if s == timeoutNoValues {
		return 0, false // nothing to parse: as if the header were absent
	}
	if len(s) < 2 || len(s) > 9 {
		return 0, false
	}
	var unit time.Duration
	switch s[len(s)-1] {
	case 'H':
		unit = time.Hour
	case 'M':
		unit = time.Minute
	case 'S':
		unit = time.Second
	case 'm':
		unit = time.Millisecond
	case 'u':
		unit = time.Microsecond
	case 'n':
		unit = time.Nanosecond
	default:
		return 0, false
	}
	var v int64
	for _, c := range []byte(s[:len(s)-1]) {
		if c < '0' || c > '9' {
			return 0, false
		}
		v = v*10 + int64(c-'0')
	}
	if v > math.MaxInt64/int64(unit) {
		return time.Duration(math.MaxInt64), true
	}
	return time.Duration(v) * unit, true
}

// timeoutNoValues stands for a grpc-timeout key with no value at all.
const timeoutNoValues = "<key-without-values>"

var timeoutUnits = []byte{'H', 'M', 'S', 'm', 'u', 'n'}

// genTimeoutHeader draws a header value and a class name for it.
func genTimeoutHeader(c *Chooser) (string, string) {
	unit := timeoutUnits[c.Intn(len(timeoutUnits), "tunit")]
	digits := func(n int) string {
		b := make([]byte, n)
		for i := range b {
			b[i] = byte('0' + c.Intn(10, "tdigit"))
		}
		if b[0] == '0' {
			b[0] = '1'
		}
		return string(b)
	}
	switch c.Intn(16, "tclass") {
	case 0, 1, 2:
		return digits(1+c.Intn(4, "tlen")) + string(unit), "small"
	case 3:
		return digits(8) + string(unit), "eight-digits"
	case 4:
		return "99999999" + string(unit), "max-eight-digits"
	case 5:
		// (no draw of its own, so that older replays keep their meaning: the
		// longest variant of this class is the all-zero value)
		n := 1 + c.Intn(5, "tlen")
		if n == 5 {
			// well-formed, encodes zero: the deadline is the instant of arrival
			return Pick(c, "tzero", "0", "000", "00000000") + string(unit), "zero"
		}
		return "000" + digits(n) + string(unit), "leading-zeros"
	case 6:
		return digits(9+c.Intn(12, "tlong")) + string(unit), "more-than-eight-digits"
	case 7:
		// around int64 overflow for the unit
		var div int64 = 1
		switch unit {
		case 'H':
			div = int64(time.Hour)
		case 'M':
			div = int64(time.Minute)
		case 'S':
			div = int64(time.Second)
		case 'm':
			div = int64(time.Millisecond)
		case 'u':
			div = int64(time.Microsecond)
		}
		v := math.MaxInt64/div + int64(c.Intn(3, "tover")) - 1
		return fmt.Sprintf("%d%c", v, unit), "around-int64-overflow"
	case 8:
		return "-" + digits(1+c.Intn(3, "tlen")) + string(unit), "negative"
	case 9:
		return "+" + digits(1+c.Intn(3, "tlen")) + string(unit), "plus-sign"
	case 10:
		return Pick(c, "tspace", " 5S", "5 S", "5S ", "\t5S", "5 S"), "spaces"
	case 11:
		// (the last one: the key is there with an empty list of values)
		return Pick(c, "tempty", "", "S", "5", "55", "H", "n", timeoutNoValues), "empty-or-missing-part"
	case 12:
		return digits(1+c.Intn(3, "tlen")) + Pick(c, "tbadunit", "s", "h", "x", "ms", "D", "U", "N", "µ"), "unknown-unit"
	case 13:
		return Pick(c, "tnonascii", "٥S", "５S", "1e3S", "0x10S", "1_0S", "1.5S", "1,5S"), "non-ascii-or-non-decimal"
	case 14:
		return fmt.Sprintf("%d%c", uint64(math.MaxInt64)+uint64(c.Intn(1000, "thuge")), unit), "beyond-int64"
	default:
		return digits(1+c.Intn(2, "tlen")) + string(Pick(c, "tshort", byte('m'), byte('u'), byte('n'), byte('S'))), "short"
	}
}

func runTimeout(w *World, rs *RunSpec) {
	c := w.C
	cfg := TunnelCfg{Topo: Pick(c, "ttopo", TopoForward, TopoReverse, TopoFwdInFwd), FC: FCBoth}
	if c.Intn(3, "topendl") == 2 {
		cfg.OpenDeadline = time.Duration(1+c.Intn(3600, "topendlv")) * time.Second
	}
	describeTunnel(w, cfg)
	w.Desc["open_deadline"] = cfg.OpenDeadline.String()
	t, err := w.OpenTunnel(cfg)
	if err != nil {
		return
	}
	n := 1 + c.Intn(4, "ntimeout")
	var plans []*RPCPlan
	var descs []any
	for i := 0; i < n; i++ {
		p := GenPlan(c, i, GenOpts{Shapes: []int{ShapeUnary, ShapeBidi}, MaxMsgs: 1, SmallOnly: true, NoMD: true})
		p.Tunnel = t.Idx
		hv, class := genTimeoutHeader(c)
		p.GrpcTimeout = hv
		p.timeoutClass = class
		if c.Intn(5, "trepeat") == 4 {
			// repeated header: the last one counts
			hv2, class2 := genTimeoutHeader(c)
			p.ReqMD = metadata.MD{"grpc-timeout": []string{hv2}}
			p.timeoutRepeated = hv2
			p.timeoutClass = class2 + "+" + class
		}
		eff := hv
		if hv == timeoutNoValues && p.timeoutRepeated != "" {
			eff = p.timeoutRepeated
		}
		ref, ok := refTimeout(eff)
		// observe the expiry itself when it is near enough
		if ok && ref <= 40*24*time.Hour {
			p.Handler = []Op{{Kind: OpRecv}, {Kind: OpAwaitCtx}, {Kind: OpReturn}}
			p.HandlerSend = nil
			p.awaitExpiry = true
		}
		plans = append(plans, p)
		descs = append(descs, map[string]any{"id": i, "grpc-timeout": hv, "class": p.timeoutClass, "repeated_first": p.timeoutRepeated, "shape": shapeNames[p.Shape]})
	}
	w.Desc["rpcs"] = descs
	// a control RPC without the header shows what deadline a handler on this
	// tunnel has anyway (the tunnel's own, if any)
	ctl := GenPlan(c, 99, GenOpts{Shapes: []int{ShapeUnary}, SmallOnly: true, NoMD: true})
	ctl.Tunnel = t.Idx
	plans = append(plans, ctl)
	cs := w.StartCallers(plans)
	cs.Wait()
	w.DrainAndProbe()
	w.FullShutdown()
	_ = simrt.ClassApp
}

// OracleC18 compares every handler's deadline with the reference implementation.
func OracleC18(w *World, h *History) {
	if len(w.Tunnels) == 0 {
		return
	}
	_ = w.Tunnels[0]
	var tunnelDL time.Time
	hasTunnelDL := false
	if ctl := h.RPCs[99]; ctl != nil && len(ctl.Handlers) > 0 && ctl.Handlers[0].Info != nil {
		tunnelDL, hasTunnelDL = ctl.Handlers[0].Info.Deadline, ctl.Handlers[0].Info.HasDeadline
	} else {
		return
	}
	for _, id := range h.RPCIDs {
		r := h.RPCs[id]
		p := r.Plan
		if p == nil || id == 99 || p.GrpcTimeout == "" && p.timeoutClass == "" || len(r.Handlers) == 0 {
			continue
		}
		hr := r.Handlers[0]
		if hr.Info == nil {
			continue
		}
		h.Derived["probe.timeout_headers_checked"]++
		hv := p.GrpcTimeout
		if hv == timeoutNoValues && p.timeoutRepeated != "" {
			// "repeated" with nothing to add: the one value there is counts
			hv = p.timeoutRepeated
		}
		ref, ok := refTimeout(hv)
		det := map[string]string{"class": p.timeoutClass}
		got, hasGot := hr.Info.Deadline, hr.Info.HasDeadline
		if !ok {
			// malformed: must not shorten the deadline
			switch {
			case hasGot && !hasTunnelDL:
				w.AddViolation("C18", "malformed-shortened", fmt.Sprintf("grpc-timeout %q is malformed under the gRPC wire specification, but the handler got a deadline %v after its start", hv, got.Sub(hr.Info.Now)), det, hr.Start)
			case hasGot && hasTunnelDL && got.Before(tunnelDL):
				w.AddViolation("C18", "malformed-shortened", fmt.Sprintf("grpc-timeout %q is malformed, but the handler's deadline (%v after start) is earlier than the tunnel's", hv, got.Sub(hr.Info.Now)), det, hr.Start)
			}
			continue
		}
		want := hr.Info.Now.Add(ref)
		if ref == time.Duration(math.MaxInt64) {
			// saturated: anything at least that far away is right
			if !hasGot && !hasTunnelDL {
				continue
			}
		}
		if hasTunnelDL && tunnelDL.Before(want) {
			want = tunnelDL
		}
		if !hasGot {
			w.AddViolation("C18", "deadline-mismatch", fmt.Sprintf("grpc-timeout %q encodes %v, but the handler's context has no deadline", hv, ref), det, hr.Start)
			continue
		}
		if !got.Equal(want) {
			w.AddViolation("C18", "deadline-mismatch", fmt.Sprintf("grpc-timeout %q encodes %v: the handler's deadline should be %v after its start, it is %v after its start", hv, ref, want.Sub(hr.Info.Now), got.Sub(hr.Info.Now)), det, hr.Start)
			continue
		}
		// the expiry itself
		if p.awaitExpiry {
			for _, o := range r.OpsOf(OpAwaitCtx, "h") {
				if !o.Returned() || o.Res == nil || o.Res.Err != context.DeadlineExceeded {
					continue // the context was cancelled (e.g. the tunnel ended first), it did not expire
				}
				elapsed := o.TRet - hr.TStart
				wantElapsed := want.Sub(hr.Info.Now)
				if elapsed != wantElapsed {
					w.AddViolation("C18", "expiry-instant-wrong", fmt.Sprintf("grpc-timeout %q: the handler's context ended %v after its start, expected %v", hv, elapsed, wantElapsed), det, o.Ret)
				}
			}
		}
	}
	_ = strings.TrimSpace
}
