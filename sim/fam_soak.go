package sim

import (
	"fmt"

	"google.golang.org/grpc/metadata"
	"strings"

	"verif/simrt"
)

// Family soak (C14): one tunnel, several phases of RPCs with assorted endings;
// between the phases the run is driven to quiescence. With nothing in flight
// the stream tables must be empty (OracleLeak, mark "drained") and the set of
// goroutines the library keeps alive must be the same after every phase: an
// RPC that leaves a goroutine behind which only the end of the tunnel would
// collect shows up as growth.

func init() {
	register(&Family{
		Name:    "soak",
		Run:     runSoak,
		Oracles: []func(*World, *History){OracleSoak, OracleC01, OracleLeak},
		Nontrivial: func(w *World, h *History) bool {
			return h.Derived["probe.soak_phases"] >= 2
		},
	})
}

func runSoak(w *World, rs *RunSpec) {
	c := w.C
	thorough := rs.Tier == "thorough"
	cfg := drawTunnelCfg(c, thorough)
	cfg.FC = FCBoth // (without flow control a consumer that stops reading blocks the tunnel: the known revision-zero limitation)
	describeTunnel(w, cfg)
	t, err := w.OpenTunnel(cfg)
	if err != nil {
		w.Violate("C11", "shape-failed", "tunnel could not be established in a workable configuration: "+err.Error(),
			map[string]string{"topology": topoNames[cfg.Topo], "fc": fcNames[cfg.FC]})
		return
	}
	phases := 3 + c.Intn(4, "soakphases")
	if thorough {
		phases = 4 + c.Intn(12, "soakphases")
	}
	var descs []any
	for ph := 0; ph < phases; ph++ {
		n := 2 + c.Intn(5, "soakn")
		var plans []*RPCPlan
		for i := 0; i < n; i++ {
			p := GenPlan(c, ph*100+i, GenOpts{MaxMsgs: 4, ByteBudget: 100000})
			p.Tunnel = t.Idx
			drawTermination(c, p)
			if p.pausedReader {
				continue
			}
			// long-lived caller contexts: an RPC that is over must not depend
			// on its context ending to be cleaned up
			p.KeepCtx = true
			switch (ph + i) % 7 {
			case 3:
				// rejected before it reaches the wire (a metadata value that cannot be encoded)
				p.ReqMD = metadata.MD{"sim-bad": []string{"\xff\xfe"}}
				p.expectLocalReject = true
			case 5:
				p.Method = "/sim.Test/NoSuchMethod"
			}
			plans = append(plans, p)
			if ph < 2 {
				descs = append(descs, planDesc(p))
			}
		}
		cs := w.StartCallers(plans)
		cs.Wait()
		simrt.AwaitStall()
		var lib []string
		for _, s := range simrt.LiveSites() {
			if isLibrarySite(strings.SplitN(s, "=", 2)[0]) {
				lib = append(lib, s)
			}
		}
		simrt.Emit(simrt.Event{Kind: EvCheckpoint, S: "soak-phase", A: int64(ph), S2: strings.Join(lib, " ")})
		w.ProbeTunnels("drained")
		simrt.Emit(simrt.Event{Kind: EvCheckpoint, S: "drained"})
	}
	w.Desc["phases"] = phases
	w.Desc["rpcs_of_first_phases"] = descs
	w.FullShutdown()
}

// OracleSoak compares the library's live goroutines at the quiescent points.
func OracleSoak(w *World, h *History) {
	first, firstSeq := "", int64(0)
	have := false
	unfinished := func(seq int64) bool {
		for _, id := range h.RPCIDs {
			r := h.RPCs[id]
			if len(r.Ops) == 0 || r.Ops[0].Inv > seq {
				continue
			}
			if term := r.Terminal(); term == nil || term.Ret > seq {
				return true
			}
			for _, hr := range r.Handlers {
				if hr.Start < seq && (hr.End == 0 || hr.End > seq) {
					return true
				}
			}
		}
		return false
	}
	for _, e := range h.Evs {
		if e.Kind != EvCheckpoint || e.S != "soak-phase" {
			continue
		}
		if unfinished(e.Seq) {
			return // something hangs: other oracles' business, the comparison is void
		}
		h.Derived["probe.soak_phases"]++
		if !have {
			first, firstSeq, have = e.S2, e.Seq, true
			continue
		}
		if e.S2 != first {
			w.AddViolation("C14", "goroutine-growth", fmt.Sprintf("with no RPC in flight the library keeps these goroutines alive after phase %d (#%d): [%s]; after the first phase (#%d) it was [%s]", e.A, e.Seq, e.S2, firstSeq, first),
				map[string]string{"what": "live-goroutines-differ-between-quiescent-points"}, e.Seq)
			return
		}
	}
}
