package sim

import (
	"context"
	"fmt"
	"time"

	"google.golang.org/grpc"
	"google.golang.org/grpc/metadata"

	"github.com/jhump/grpctunnel"
	"github.com/jhump/grpctunnel/tunnelpb"

	"verif/simrt"
)

// Topology kinds.
const (
	TopoForward = iota
	TopoReverse
	TopoFwdInFwd
	TopoFwdInRev
	TopoRevInFwd
	NumTopos
)

var topoNames = [...]string{"forward", "reverse", "forward-in-forward", "forward-in-reverse", "reverse-in-forward"}

// Flow-control configurations.
const (
	FCBoth = iota
	FCClientDisabled
	FCServerDisabled
	FCBothDisabled
	FCLegacy // neither side sees the other's negotiate header: each believes its peer is a revision-zero implementation
	NumFC
)

var fcNames = [...]string{"fc-both", "client-disabled", "server-disabled", "both-disabled", "legacy-views"}

// FlowControlExpected says whether revision one must be in use for a configuration.
func FlowControlExpected(fc int) bool { return fc == FCBoth }

// TunnelCfg configures one tunnel.
type TunnelCfg struct {
	Topo         int
	FC           int
	Carrier      CarrierCfg
	OpenMD       metadata.MD // metadata of the tunnel-opening call
	OpenDeadline time.Duration
	Key          any  // affinity key returned for this tunnel (reverse)
	Intercept    bool // the stub a forward tunnel is opened through has a client stream interceptor that adds metadata

	shareHandler   *grpctunnel.TunnelServiceHandler
	shareStub      tunnelpb.TunnelServiceClient
	shareRevServer *grpctunnel.ReverseTunnelServer
}

// Tunnel is a uniform handle on an established tunnel.
type Tunnel struct {
	W    *World
	Idx  int
	Cfg  TunnelCfg
	Name string

	// RPC-initiating end
	Chan grpctunnel.TunnelChannel
	// forward: what NewChannel returned (Start may be called on it again), and
	// a second channel started from it after Chan, if the run wants one
	Pending       grpctunnel.PendingChannel
	Sibling       grpctunnel.TunnelChannel
	SiblingCancel context.CancelFunc
	// the handler of the network server (forward: serves RPCs; reverse: owns the registry)
	Handler *grpctunnel.TunnelServiceHandler
	// reverse: the server running on the network client
	RevServer *grpctunnel.ReverseTunnelServer

	Car  *Carrier
	Conn *Conn // outermost carrier stream (nil for the inner tunnel of a nesting)

	OpenCtx    context.Context
	OpenCancel context.CancelFunc

	Outer *Tunnel // nesting

	ServeReturned bool
	ServeStarted  bool
	ServeErr      error

	Server *TestServer
}

func (w *World) handlerOpts(t *Tunnel, fc int) grpctunnel.TunnelServiceHandlerOptions {
	o := grpctunnel.TunnelServiceHandlerOptions{}
	o.OnReverseTunnelOpen = func(ch grpctunnel.TunnelChannel) {
		simrt.Emit(simrt.Event{Kind: EvTunnel, S: "rev-open", A: int64(t.Idx), P: ch})
		w.revOpened(ch)
	}
	o.OnReverseTunnelClose = func(ch grpctunnel.TunnelChannel) {
		simrt.Emit(simrt.Event{Kind: EvTunnel, S: "rev-close", A: int64(t.Idx), P: ch})
	}
	o.AffinityKey = func(ch grpctunnel.TunnelChannel) any {
		md, _ := metadata.FromIncomingContext(ch.Context())
		if v := md.Get("sim-key"); len(v) > 0 {
			return v[0]
		}
		return nil
	}
	return o
}

func (w *World) revOpened(ch grpctunnel.TunnelChannel) {
	w.mu.Lock()
	w.RevChans = append(w.RevChans, ch)
	w.mu.Unlock()
}

func clientOpts(fc int) []grpctunnel.TunnelOption {
	if fc == FCClientDisabled || fc == FCBothDisabled {
		return []grpctunnel.TunnelOption{grpctunnel.WithDisableFlowControl()}
	}
	return nil
}

// OpenTunnel establishes a tunnel per cfg. Must be called from a simulated goroutine.
func (w *World) OpenTunnel(cfg TunnelCfg) (*Tunnel, error) {
	t := &Tunnel{W: w, Idx: len(w.Tunnels), Cfg: cfg}
	t.Name = fmt.Sprintf("t%d", t.Idx)
	w.Tunnels = append(w.Tunnels, t)
	switch cfg.Topo {
	case TopoForward:
		return t, w.openForward(t, nil)
	case TopoReverse:
		return t, w.openReverse(t, nil)
	case TopoFwdInFwd, TopoRevInFwd:
		outer, err := w.OpenTunnel(TunnelCfg{Topo: TopoForward, FC: FCBoth, Carrier: cfg.Carrier, OpenMD: metadata.Pairs("outer", "1")})
		if err != nil {
			return t, err
		}
		t.Outer = outer
		if cfg.Topo == TopoFwdInFwd {
			return t, w.openForward(t, outer)
		}
		return t, w.openReverse(t, outer)
	case TopoFwdInRev:
		outer, err := w.OpenTunnel(TunnelCfg{Topo: TopoReverse, FC: FCBoth, Carrier: cfg.Carrier, OpenMD: metadata.Pairs("outer", "1")})
		if err != nil {
			return t, err
		}
		t.Outer = outer
		return t, w.openForward(t, outer)
	}
	return t, fmt.Errorf("bad topology %d", cfg.Topo)
}

func (w *World) openCtx(t *Tunnel) context.Context {
	ctx := w.RootCtx
	md := metadata.MD{}
	for k, v := range t.Cfg.OpenMD {
		md[k] = append([]string(nil), v...)
	}
	md.Set("sim-tunnel", fmt.Sprint(t.Idx))
	if t.Cfg.Key != nil {
		md.Set("sim-key", fmt.Sprint(t.Cfg.Key))
	}
	ctx = metadata.NewOutgoingContext(ctx, md)
	// a context value standing for what an interceptor of the application put there
	ctx = context.WithValue(ctx, ctxMarkerKey{}, "marker-"+t.Name)
	if t.Cfg.OpenDeadline > 0 {
		t.OpenCtx, t.OpenCancel = context.WithTimeout(ctx, t.Cfg.OpenDeadline)
	} else {
		t.OpenCtx, t.OpenCancel = context.WithCancel(ctx)
	}
	return t.OpenCtx
}

// stubFor returns the TunnelServiceClient the dialling side uses and registers
// the accepting handler: either the sim carrier or (nested) the real generated
// client over the outer tunnel channel.
func (w *World) stubFor(t *Tunnel, outer *Tunnel, h *grpctunnel.TunnelServiceHandler) tunnelpb.TunnelServiceClient {
	if outer == nil {
		car := &Carrier{W: w, Name: t.Name, Svc: h.Service(), Cfg: t.Cfg.Carrier, PeerAddr: "peer-" + t.Name, Marker: "marker-" + t.Name}
		if t.Cfg.FC == FCLegacy {
			car.StripReqNegotiate = true
			car.StripRespNegotiate = true
		}
		car.Meta = ConnMeta{Negotiated: t.Cfg.FC != FCLegacy, FlowControl: t.Cfg.FC == FCBoth}
		car.Intercept = t.Cfg.Intercept
		t.Car = car
		return car
	}
	// the inner tunnel service is served by the outer tunnel's serving side
	switch {
	case outer.Handler != nil && outer.RevServer == nil:
		tunnelpb.RegisterTunnelServiceServer(outer.Handler, h.Service())
	case outer.RevServer != nil:
		tunnelpb.RegisterTunnelServiceServer(outer.RevServer, h.Service())
	}
	return tunnelpb.NewTunnelServiceClient(outer.Chan)
}

func (w *World) openForward(t *Tunnel, outer *Tunnel) error {
	ho := w.handlerOpts(t, t.Cfg.FC)
	ho.NoReverseTunnels = true
	ho.DisableFlowControl = t.Cfg.FC == FCServerDisabled || t.Cfg.FC == FCBothDisabled
	h := grpctunnel.NewTunnelServiceHandler(ho)
	t.Server = &TestServer{W: w, Name: t.Name}
	h.RegisterService(&TestDesc, t.Server)
	t.Handler = h
	stub := w.stubFor(t, outer, h)
	ctx := w.openCtx(t)
	simrt.Emit(simrt.Event{Kind: EvTunnel, S: "chan-start", A: int64(t.Idx)})
	t.Pending = grpctunnel.NewChannel(stub, clientOpts(t.Cfg.FC)...)
	ch, err := t.Pending.Start(ctx)
	if err != nil {
		simrt.Emit(simrt.Event{Kind: EvTunnel, S: "chan-start-failed", A: int64(t.Idx), S2: err.Error()})
		return err
	}
	t.Chan = ch
	if t.Car != nil && len(t.Car.Conns) > 0 {
		t.Conn = t.Car.Conns[len(t.Car.Conns)-1]
	}
	simrt.Emit(simrt.Event{Kind: EvTunnel, S: "chan-started", A: int64(t.Idx)})
	return nil
}

func (w *World) openReverse(t *Tunnel, outer *Tunnel) error {
	// A reverse tunnel may share the handler (registry) of an earlier tunnel.
	h := t.Cfg.shareHandler
	if h == nil {
		ho := w.handlerOpts(t, t.Cfg.FC)
		ho.DisableFlowControl = t.Cfg.FC == FCClientDisabled || t.Cfg.FC == FCBothDisabled // the network server is the tunnel client
		h = grpctunnel.NewTunnelServiceHandler(ho)
	}
	t.Handler = h
	var stub tunnelpb.TunnelServiceClient
	if t.Cfg.shareStub != nil {
		stub = t.Cfg.shareStub
	} else {
		stub = w.stubFor(t, outer, h)
	}
	var opts []grpctunnel.TunnelOption
	if t.Cfg.FC == FCServerDisabled || t.Cfg.FC == FCBothDisabled {
		opts = append(opts, grpctunnel.WithDisableFlowControl())
	}
	rs := t.Cfg.shareRevServer
	if rs == nil {
		rs = grpctunnel.NewReverseTunnelServer(stub, opts...)
		t.Server = &TestServer{W: w, Name: t.Name}
		rs.RegisterService(&TestDesc, t.Server)
	}
	t.RevServer = rs
	ctx := w.openCtx(t)
	before := len(w.RevChans)
	simrt.Go("topology.serve", func() {
		simrt.Emit(simrt.Event{Kind: EvTunnel, S: "serve-start", A: int64(t.Idx)})
		started, err := rs.Serve(ctx)
		t.ServeStarted, t.ServeErr, t.ServeReturned = started, err, true
		simrt.Emit(simrt.Event{Kind: EvTunnel, S: "serve-return", A: int64(t.Idx), B: b2i(started), S2: errString(err), P: err})
		w.wakeTopo()
	})
	// wait for the registry to show the new tunnel (or Serve to fail)
	for tries := 0; ; tries++ {
		if tries > 100000 {
			return fmt.Errorf("reverse tunnel never opened")
		}
		w.mu.Lock()
		n := len(w.RevChans)
		var ch grpctunnel.TunnelChannel
		if n > before {
			ch = w.RevChans[n-1]
		}
		w.mu.Unlock()
		if ch != nil {
			t.Chan = ch
			break
		}
		if t.ServeReturned {
			return fmt.Errorf("serve returned before the tunnel opened: started=%v err=%v", t.ServeStarted, t.ServeErr)
		}
		simrt.AwaitIdle()
		w.mu.Lock()
		n2 := len(w.RevChans)
		w.mu.Unlock()
		if n2 == before && !t.ServeReturned {
			// idle and nothing happened: only time can help
			if w.RootCtx.Err() != nil {
				return w.RootCtx.Err()
			}
			simrt.Sleep(time.Millisecond)
		}
	}
	if t.Car != nil && len(t.Car.Conns) > 0 {
		t.Conn = t.Car.Conns[len(t.Car.Conns)-1]
	}
	return nil
}

func (w *World) wakeTopo() {}

// ClientConnFor returns the connection a caller of plan p uses.
func (w *World) ClientConnFor(p *RPCPlan) grpc.ClientConnInterface {
	t := w.Tunnels[p.Tunnel]
	switch p.Via {
	case "pool":
		return t.Handler.AsChannel()
	case "key":
		return t.Handler.KeyAsChannel(p.Key)
	}
	return t.Chan
}
