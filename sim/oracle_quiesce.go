package sim

import (
	"fmt"
	"regexp"
	"strings"

	"github.com/jhump/grpctunnel"

	"verif/simrt"
)

// M-quiescence and leak accounting (DESIGN.md 5): what is still blocked, which
// goroutines are alive, how large the stream tables are, evaluated at drain
// checkpoints and after the run.

// TunnelProbe is what the director records about a tunnel at a checkpoint.
type TunnelProbe struct {
	Tunnel        int
	Mark          string
	DoneClosed    bool
	Err           error
	ClientTable   int // VerifChannelStreams
	ServerTables  []int
	ServeReturned bool
	ServeErr      error
	RegistryAll   int
	NestedAlive   int // an inner tunnel RPC is still in flight on this (outer) tunnel
}

// ProbeTunnels records the externally visible state of every tunnel.
func (w *World) ProbeTunnels(mark string) {
	for _, t := range w.Tunnels {
		p := &TunnelProbe{Tunnel: t.Idx, Mark: mark, ClientTable: -9}
		if t.Chan != nil {
			select {
			case <-t.Chan.Done():
				p.DoneClosed = true
			default:
			}
			p.Err = t.Chan.Err()
			p.ClientTable = grpctunnel.VerifChannelStreams(t.Chan)
		}
		for _, s := range w.serversOf(t.Idx) {
			p.ServerTables = append(p.ServerTables, s.Streams())
		}
		p.ServeReturned, p.ServeErr = t.ServeReturned, t.ServeErr
		for _, in := range w.Tunnels {
			if in.Outer == t && in.Chan != nil {
				select {
				case <-in.Chan.Done():
				default:
					p.NestedAlive = 1
				}
				if in.RevServer != nil && !in.ServeReturned {
					p.NestedAlive = 1
				}
			}
		}
		if t.Handler != nil {
			// (also on handlers that serve forward tunnels only, created with
			// NoReverseTunnels: the list is empty there, and asking is legal)
			n := len(t.Handler.AllReverseTunnels())
			if t.RevServer != nil {
				p.RegistryAll = n
			} else if n != 0 && t.Outer == nil {
				p.RegistryAll = n
			}
		}
		simrt.Emit(simrt.Event{Kind: EvTunnel, S: "probe", A: int64(t.Idx), S2: mark, P: p})
	}
}

// noteServer remembers the tunnel server behind a handler context.
//
//go:norace
func (w *World) noteServer(tunnelName string, vs *grpctunnel.VerifServer) {
	for _, e := range w.servers {
		if e.vs.Same(vs) {
			return
		}
	}
	w.servers = append(w.servers, serverRef{name: tunnelName, vs: vs})
}

type serverRef struct {
	name string
	vs   *grpctunnel.VerifServer
}

//go:norace
func (w *World) serversOf(tunnel int) []*grpctunnel.VerifServer {
	var out []*grpctunnel.VerifServer
	name := fmt.Sprintf("t%d", tunnel)
	for _, e := range w.servers {
		if e.name == name {
			out = append(out, e.vs)
		}
	}
	return out
}

// OracleLeak (C14): after every tunnel has ended and the harness has released
// everything, no goroutine started by the library may remain and the tables
// must be empty; at drain checkpoints the tables hold exactly the RPCs in flight.
func OracleLeak(w *World, h *History) {
	shutdown := false
	for _, e := range h.Evs {
		if e.Kind == EvCheckpoint && e.S == "shutdown-done" {
			shutdown = true
		}
	}
	if shutdown {
		bySite := map[string]int{}
		var names []string
		for _, g := range h.Res.Live {
			if isLibrarySite(g.SpawnSite) {
				bySite[g.SpawnSite]++
				names = append(names, g.Name)
			}
		}
		for site, n := range bySite {
			w.AddViolation("C14", "goroutine-leak", fmt.Sprintf("%d goroutine(s) started by the library at %s are still alive after every tunnel ended and every context was cancelled (%s)",
				n, site, strings.Join(names, " ")), map[string]string{"site": siteFunc(site)}, 0)
		}
	}
	// table sizes at probes
	for _, e := range h.Tunnel {
		if e.S != "probe" {
			continue
		}
		p, _ := e.P.(*TunnelProbe)
		if p == nil {
			continue
		}
		switch p.Mark {
		case "drained":
			// every caller has finished, nothing is runnable and no timer is
			// pending: nothing is in flight any more
			inflightHandlers, stubbornExtra := 0, 0
			for _, id := range h.RPCIDs {
				r := h.RPCs[id]
				if r.Plan == nil || r.Plan.Tunnel != p.Tunnel {
					continue
				}
				if inStubbornPause(r, e.Seq) {
					// runs on after its context ended: its entry is gone if the
					// stream was finished (cancel frame), still there if only
					// the tunnel ended (it goes when the handler returns)
					stubbornExtra++
					continue
				}
				for _, hr := range r.Handlers {
					if hr.Start < e.Seq && (hr.End == 0 || hr.End > e.Seq) {
						inflightHandlers++
					}
				}
			}
			// the tunnel RPC of a nested (inner) tunnel is in flight on its outer tunnel
			nested := p.NestedAlive
			// calls that have not obtained their terminal result yet (only in runs that hang)
			unfinished := 0
			for _, id := range h.RPCIDs {
				r := h.RPCs[id]
				if r.Plan == nil || r.Plan.Tunnel != p.Tunnel || len(r.Ops) == 0 || r.Ops[0].Inv > e.Seq {
					continue
				}
				if term := r.Terminal(); term == nil || term.Ret > e.Seq {
					unfinished++
				}
			}
			// the tunnel RPC of an inner tunnel may or may not have completed by now
			// (its serving side returns only once it has noticed the end)
			innerMax := nested
			for _, in := range w.Tunnels {
				if in.Outer != nil && in.Outer.Idx == p.Tunnel {
					innerMax = 1
				}
			}
			if p.ClientTable >= 0 && (p.ClientTable > innerMax+unfinished || (unfinished == 0 && p.ClientTable < nested)) {
				w.AddViolation("C14", "client-table-mismatch", fmt.Sprintf("tunnel %d: %d entries in the channel's stream table at final quiescence, but only %d call(s) have not finished (+%d nested tunnel)", p.Tunnel, p.ClientTable, unfinished, nested),
					map[string]string{"mark": p.Mark}, e.Seq)
			}
			total := 0
			for _, n := range p.ServerTables {
				total += n
			}
			if total < inflightHandlers || total > inflightHandlers+innerMax+stubbornExtra {
				w.AddViolation("C14", "server-table-mismatch", fmt.Sprintf("tunnel %d: %d entries in the server stream table(s) at a quiescent point, but %d handlers are still running", p.Tunnel, total, inflightHandlers),
					map[string]string{"mark": p.Mark}, e.Seq)
			}
		case "shutdown-done":
			if p.ClientTable > 0 {
				w.AddViolation("C14", "client-table-mismatch", fmt.Sprintf("tunnel %d: %d entries in the channel's stream table after the tunnel ended", p.Tunnel, p.ClientTable), map[string]string{"mark": p.Mark}, e.Seq)
			}
			for _, n := range p.ServerTables {
				if n != 0 {
					// handlers that are still running legitimately hold an entry? no: after
					// shutdown every handler context is cancelled and scripted handlers return
					w.AddViolation("C14", "server-table-mismatch", fmt.Sprintf("tunnel %d: %d entries in a server stream table after the tunnel ended", p.Tunnel, n), map[string]string{"mark": p.Mark}, e.Seq)
				}
			}
			if p.RegistryAll != 0 {
				w.AddViolation("C14", "registry-mismatch", fmt.Sprintf("tunnel %d: the reverse-tunnel registry still lists %d tunnel(s) after all ended", p.Tunnel, p.RegistryAll), map[string]string{"mark": p.Mark}, e.Seq)
			}
		}
	}
}

func isLibrarySite(site string) bool {
	for _, f := range []string{"tunnel_client.go:", "tunnel_server.go:", "handler.go:", "reverse_server.go:", "flow_control.go:", "tunnel_metadata.go:", "options.go:"} {
		if strings.HasPrefix(site, f) {
			return true
		}
	}
	// any other non-harness site is a library file added by an edit
	if strings.HasSuffix(strings.SplitN(site, ":", 2)[0], ".go") {
		return true
	}
	return false
}

// siteFunc makes a spawn site stable against line shifts: file only.
func siteFunc(site string) string {
	return strings.SplitN(site, ":", 2)[0]
}

// FullShutdown ends everything and lets the run settle so that leak accounting
// is meaningful: tunnels closed, servers stopped, every context cancelled.
func (w *World) FullShutdown() {
	w.Shutdown()
	simrt.AwaitStall()
	w.ProbeTunnels("shutdown-done")
	simrt.Emit(simrt.Event{Kind: EvCheckpoint, S: "shutdown-done"})
}

// DrainAndProbe waits for full quiescence and records table sizes.
func (w *World) DrainAndProbe() {
	simrt.AwaitStall()
	stacks := ""
	if simrt.LiveNonDaemon() > 1 {
		// something besides the director is still alive at final quiescence:
		// keep the stacks as a witness of what it is blocked in
		stacks = simrt.LiveStacks()
	}
	simrt.Emit(simrt.Event{Kind: EvCheckpoint, S: "drained", S2: stacks})
	w.ProbeTunnels("drained")
}

// OracleHung reports application operations that never returned although the
// run reached final quiescence (nothing runnable, every timer fired).
func OracleHung(prop string) func(w *World, h *History) {
	return func(w *World, h *History) {
		drained := int64(0)
		stacks := ""
		for _, e := range h.Evs {
			if e.Kind == EvCheckpoint && e.S == "drained" && drained == 0 {
				drained = e.Seq
				stacks = e.S2
			}
		}
		if drained == 0 {
			return
		}
		// Head-of-line witness: without flow control (revision zero) a frame
		// for a stream whose application does not read blocks the receive
		// loop in accept(), so nothing else on the tunnel - including its end -
		// is noticed.
		hol := holFromStacks(stacks)
		for _, id := range h.RPCIDs {
			r := h.RPCs[id]
			for _, o := range r.Ops {
				if o.Op == OpPause || o.Op == OpReturn || o.Inv > drained {
					continue
				}
				if o.Returned() && o.Ret < drained {
					continue
				}
				side := "caller"
				if strings.HasPrefix(o.Actor, "h") {
					side = "handler"
				}
				w.AddViolation(prop, "op-hung", fmt.Sprintf("rpc %d: %s %s[%d] invoked at #%d had not returned when the run reached final quiescence (#%d: nothing runnable, every timer fired)", id, side, opNames[o.Op], o.Idx, o.Inv, drained),
					map[string]string{"side": side, "op": opNames[o.Op], "hol": hol}, o.Inv)
			}
			for _, hr := range r.Handlers {
				if inStubbornPause(r, drained) {
					continue // held by the harness beyond its cancellation, on purpose
				}
				if hr.Start < drained && (hr.End == 0 || hr.End > drained) {
					w.AddViolation(prop, "handler-not-released", fmt.Sprintf("rpc %d: handler started at #%d had not returned at final quiescence (#%d)", id, hr.Start, drained), map[string]string{"side": "handler", "hol": hol}, hr.Start)
				}
			}
		}
		h.holWitness = hol
	}
}

// inStubbornPause: the handler of r has seen its context end and is being
// held by the harness (a handler that does not return promptly) at seq.
func inStubbornPause(r *RPCHist, seq int64) bool {
	if r.Plan == nil || !r.Plan.stubborn {
		return false
	}
	for _, o := range r.Ops {
		if o.Actor == "h" && o.Op == OpPause && o.Idx == 940 && o.Inv < seq && (!o.Returned() || o.Ret > seq) {
			return true
		}
	}
	return false
}

// holFromStacks looks for the head-of-line witness in a stack dump.
func holFromStacks(stacks string) string {
	if strings.Contains(stacks, "noFlowControlReceiver") && strings.Contains(stacks, ".accept(") {
		// The known limitation of revision zero is a receive loop waiting for an
		// application that is not reading. Once anybody has tried to end that
		// stream (close / cancel of the receiver), accept must let go at once:
		// a goroutine still inside close at a stall is a different failure.
		if rev0CloseRE.MatchString(stacks) {
			return "rev0-receiver-close-blocked-behind-accept"
		}
		return "recv-loop-blocked-in-rev0-accept"
	}
	return "no"
}

var rev0CloseRE = regexp.MustCompile(`noFlowControlReceiver\[[^\]]*\]\)\.(close|cancel)`)

//go:norace
func (w *World) noteStream(rpc int, vs *grpctunnel.VerifStream) {
	w.mu.Lock()
	if w.vstreams == nil {
		w.vstreams = map[int]*grpctunnel.VerifStream{}
	}
	w.vstreams[rpc] = vs
	w.mu.Unlock()
}
