package sim

import (
	"fmt"
	"strings"

	"google.golang.org/grpc/status"
)

// M-wire / M-window (DESIGN.md appendix A): a protocol automaton per carrier
// stream and per tunnel stream id, written from the text of tunnel.proto, fed
// with every frame at the instant it is emitted and the instant it is
// delivered. Evaluated over the recorded history.

// ConnMeta tells the monitor what to expect of a carrier stream.
type ConnMeta struct {
	Negotiated  bool // both ends advertise negotiation
	FlowControl bool // ... and neither disabled flow control
	ClientRaw   bool // the tunnel client is a scripted raw peer: do not judge its emissions
	ServerRaw   bool // the tunnel server is a scripted raw peer
	NoJudge     bool
}

type asmState struct {
	active bool
	size   uint32
	got    uint32
}

type wireStream struct {
	id         int64
	rpc        int
	revision   int32
	cliWindow  uint32 // window the tunnel client advertised for response data
	newEmit    int64
	newDeliver int64
	method     string

	c2sAsm             asmState
	c2sData            int64
	halfClose          int
	cancel             int
	c2sCredit          int64 // window_update emitted by the client (credit for response data)
	c2sCreditDelivered int64 // ... delivered to the server endpoint

	s2cAsm             asmState
	s2cData            int64
	s2cDataDelivered   int64
	headers            int
	msgs               int
	closes             int
	closeEmit          int64
	s2cCredit          int64 // window_update emitted by the server (credit for request data)
	s2cCreditDelivered int64
	c2sDataDelivered   int64
	afterClose         int
	closeMidMsg        bool
	closeCode          int32
	cancelDeliver      int64
	firstAfterClose    int64
	firstAfterCloseF   *FrameInfo
	// per message boundaries of response data (cumulative bytes at end of message k)
	s2cMsgEnds []int64
	c2sMsgEnds []int64
}

type wireConn struct {
	id           int
	meta         ConnMeta
	maxNew       int64
	haveNew      bool
	serverFrames int
	settings     int
	srvWindow    uint32 // from settings
	streams      map[int64]*wireStream
	order        []int64
}

const chunkLimit = 16384

// OracleWire runs the protocol monitor over all carrier streams.
func OracleWire(w *World, h *History) {
	conns := map[int]*wireConn{}
	get := func(id int) *wireConn {
		c := conns[id]
		if c == nil {
			c = &wireConn{id: id, maxNew: -1 << 62, streams: map[int64]*wireStream{}, srvWindow: 65536}
			if m, ok := w.ConnMeta[id]; ok {
				c.meta = m
			} else {
				c.meta = ConnMeta{NoJudge: true}
			}
			conns[id] = c
		}
		return c
	}
	viol := func(prop, kind string, seq int64, f *FrameInfo, format string, a ...any) {
		w.AddViolation(prop, kind, fmt.Sprintf("frame #%d %v: ", seq, f)+fmt.Sprintf(format, a...), map[string]string{"rule": kind}, seq)
	}
	// index of drain checkpoints and conn ends
	type step struct {
		seq  int64
		emit bool
		f    *FrameRec
	}
	var steps []step
	for _, f := range h.Frames {
		steps = append(steps, step{seq: f.Emit, emit: true, f: f})
		if f.Deliver != 0 {
			steps = append(steps, step{seq: f.Deliver, emit: false, f: f})
		}
	}
	// sort by seq (frames are in emit order; deliveries interleave)
	sortSteps := func() {
		// insertion-friendly: simple sort
		for i := 1; i < len(steps); i++ {
			for j := i; j > 0 && steps[j].seq < steps[j-1].seq; j-- {
				steps[j], steps[j-1] = steps[j-1], steps[j]
			}
		}
	}
	if len(steps) < 5000 {
		sortSteps()
	} else {
		sortStepsFast(steps, func(a, b int) bool { return steps[a].seq < steps[b].seq }, func(a, b int) { steps[a], steps[b] = steps[b], steps[a] })
	}
	for _, s := range steps {
		fi := s.f.Info
		if fi == nil {
			continue
		}
		c := get(fi.Conn)
		if c.meta.NoJudge {
			continue
		}
		if fi.ToServer {
			wireC2S(w, c, s.seq, s.emit, fi, viol)
		} else {
			wireS2C(w, c, s.seq, s.emit, fi, viol)
		}
	}
	// end-of-run rules
	drained := int64(0)
	for _, e := range h.Evs {
		if e.Kind == EvCheckpoint && e.S == "drained" {
			drained = e.Seq
		}
	}
	for _, c := range conns {
		if c.meta.NoJudge || c.meta.ServerRaw || drained == 0 {
			continue
		}
		// was the carrier stream alive at the drain checkpoint?
		alive := true
		for _, e := range h.ConnEnds[c.id] {
			if e.Seq < drained && e.S != "close-send" {
				alive = false
			}
		}
		if !alive {
			continue
		}
		for _, id := range c.order {
			st := c.streams[id]
			if st.newDeliver == 0 || st.newDeliver > drained || st.closes > 0 {
				continue
			}
			if st.rpc < 0 {
				continue // not a scripted RPC (the tunnel RPC of a nesting): no handler record to consult
			}
			// only streams whose handler has ended (or that never got one) owe a close frame by now
			owes := true
			if r := h.RPCs[st.rpc]; r != nil && st.rpc >= 0 {
				for _, hr := range r.Handlers {
					if hr.End == 0 || hr.End > drained {
						owes = false
					}
				}
			}
			if owes {
				w.AddViolation("C13", "close-missing", fmt.Sprintf("conn %d stream %d (rpc %d): new_stream was delivered at #%d, the tunnel is still up at the drain checkpoint #%d, but no close_stream was ever emitted",
					c.id, id, st.rpc, st.newDeliver, drained), map[string]string{"rule": "close-missing"}, drained)
			}
		}
	}
	// a close frame is the last frame of a stream the handler ended
	for _, c := range conns {
		if c.meta.NoJudge || c.meta.ServerRaw {
			continue
		}
		for _, id := range c.order {
			st := c.streams[id]
			r := h.RPCs[st.rpc]
			if r == nil || len(r.Handlers) == 0 || st.rpc < 0 {
				continue
			}
			hr := r.Handlers[0]
			if st.cancelDeliver != 0 && st.cancelDeliver < st.closeEmit {
				continue // the client's cancel ended the stream, not the handler
			}
			if int32(status.Code(hr.Err)) != st.closeCode {
				continue // the close frame does not carry the handler's own result: something else ended the stream
			}
			if st.closeMidMsg && hr.End != 0 && hr.End < st.closeEmit && !hr.CtxDoneAtEnd {
				w.AddViolation("C13", "close-mid-message", fmt.Sprintf("conn %d stream %d: close_stream (#%d) of a stream whose handler had ended (#%d) while a response message was incomplete on the wire",
					c.id, id, st.closeEmit, hr.End), map[string]string{"rule": "close-mid-message"}, st.closeEmit)
			}
			if st.firstAfterClose == 0 {
				continue
			}
			if hr.End != 0 && hr.End < st.closeEmit && !hr.CtxDoneAtEnd {
				w.AddViolation("C13", "frame-after-close", fmt.Sprintf("frame #%d %v: emitted after the close_stream (#%d) of a stream whose handler had ended (#%d)",
					st.firstAfterClose, st.firstAfterCloseF, st.closeEmit, hr.End), map[string]string{"rule": "frame-after-close"}, st.firstAfterClose)
			}
		}
	}
	w.wire = conns
}

type violFn func(prop, kind string, seq int64, f *FrameInfo, format string, a ...any)

func (c *wireConn) fcActive(st *wireStream) bool {
	return st.revision == 1
}

func wireC2S(w *World, c *wireConn, seq int64, emit bool, f *FrameInfo, viol violFn) {
	judge := !c.meta.ClientRaw
	st := c.streams[f.StreamID]
	if f.Type == FNewStream {
		if emit {
			if c.haveNew && f.StreamID <= c.maxNew && judge {
				viol("C08", "id-not-increasing", seq, f, "stream id %d is not greater than the previous maximum %d", f.StreamID, c.maxNew)
			}
			if st != nil && judge {
				viol("C08", "id-duplicate", seq, f, "stream id %d is already in use", f.StreamID)
			}
			if !c.haveNew || f.StreamID > c.maxNew {
				c.maxNew = f.StreamID
			}
			c.haveNew = true
			if st == nil {
				st = &wireStream{id: f.StreamID, rpc: f.RPC, revision: f.Revision, cliWindow: f.Window, newEmit: seq, method: f.Method}
				c.streams[f.StreamID] = st
				c.order = append(c.order, f.StreamID)
			}
			if judge {
				if !c.meta.Negotiated && f.Revision != 0 {
					viol("C11", "rev1-frame-to-legacy", seq, f, "new_stream uses revision %d towards a peer that did not advertise negotiation", f.Revision)
				}
				if c.meta.Negotiated && c.meta.FlowControl && f.Revision != 1 {
					viol("C11", "flowcontrol-mismatch", seq, f, "both ends advertise negotiation and neither disabled flow control, but new_stream uses revision %d", f.Revision)
				}
				if c.meta.Negotiated && !c.meta.FlowControl && f.Revision != 0 {
					viol("C11", "flowcontrol-mismatch", seq, f, "flow control is disabled on one end, but new_stream uses revision %d", f.Revision)
				}
			}
		} else if st != nil && st.newDeliver == 0 {
			st.newDeliver = seq
		}
		return
	}
	if st == nil {
		if emit && judge {
			viol("C08", "first-frame-not-new-stream", seq, f, "first frame of stream id %d is not new_stream", f.StreamID)
		}
		return
	}
	if !emit {
		switch f.Type {
		case FWinUpd:
			st.c2sCreditDelivered += int64(f.Window)
		case FReqMsg, FMoreReq:
			st.c2sDataDelivered += int64(f.DataLen)
		case FCancel:
			if st.cancelDeliver == 0 {
				st.cancelDeliver = seq
			}
		}
		return
	}
	switch f.Type {
	case FReqMsg, FMoreReq:
		if !judge {
			st.c2sData += int64(f.DataLen)
			return
		}
		// Streams whose application is not a scripted actor (the inner tunnel
		// of a nesting drives the outer stream from many goroutines and keeps
		// sending after CloseSend / after a failed send, which the gRPC API
		// forbids and no property covers) are exempt from the rules that
		// presuppose a well-behaved application.
		app := st.rpc >= 0
		// (the carrier stream of a nested reverse tunnel is the exception to
		// the exception: its driver, ReverseTunnelServer, does stop sending
		// once it has half-closed - Stop relies on that)
		if st.halfClose > 0 && (app || strings.HasSuffix(st.method, "/OpenReverseTunnel")) {
			viol("C13", "data-after-half-close", seq, f, "request data after half_close")
		}
		if f.DataLen > chunkLimit {
			viol("C06", "chunk-too-large", seq, f, "%d bytes of message data in one frame (limit %d)", f.DataLen, chunkLimit)
		}
		if f.Type == FReqMsg {
			if st.c2sAsm.active && app {
				viol("C13", "envelope-before-previous-finished", seq, f, "request envelope while the previous message has %d/%d bytes", st.c2sAsm.got, st.c2sAsm.size)
			}
			st.c2sAsm = asmState{active: true, size: f.Size, got: uint32(f.DataLen)}
		} else {
			if !st.c2sAsm.active && app {
				viol("C13", "continuation-without-envelope", seq, f, "more_request_data without a message in progress")
			}
			st.c2sAsm.got += uint32(f.DataLen)
		}
		if st.c2sAsm.got > st.c2sAsm.size {
			viol("C13", "chunks-exceed-size", seq, f, "chunks add up to %d > declared size %d", st.c2sAsm.got, st.c2sAsm.size)
		}
		st.c2sData += int64(f.DataLen)
		if st.c2sAsm.got >= st.c2sAsm.size {
			st.c2sAsm.active = false
			st.c2sMsgEnds = append(st.c2sMsgEnds, st.c2sData)
		}
		if c.fcActive(st) {
			// un-credited bytes on the wire must fit the window the server advertised
			if out := st.c2sData - st.s2cCreditDelivered; out > int64(c.srvWindow) {
				viol("C06", "sender-overrun", seq, f, "client has %d un-credited request bytes on the wire, the server advertised %d", out, c.srvWindow)
			}
		}
	case FHalfClose:
		st.halfClose++
		if judge {
			if st.halfClose > 1 {
				viol("C13", "half-close-twice", seq, f, "half_close sent %d times", st.halfClose)
			}
			if st.c2sAsm.active && st.rpc >= 0 {
				viol("C13", "half-close-mid-message", seq, f, "half_close while a message has %d/%d bytes", st.c2sAsm.got, st.c2sAsm.size)
			}
		}
	case FCancel:
		st.cancel++
		if judge && st.cancel > 1 {
			viol("C13", "cancel-twice", seq, f, "cancel sent %d times", st.cancel)
		}
	case FWinUpd:
		st.c2sCredit += int64(f.Window)
		if judge {
			if st.revision != 1 {
				viol("C11", "window-update-on-rev0", seq, f, "window_update on a revision-%d stream", st.revision)
			}
			if st.c2sCredit > st.s2cDataDelivered {
				viol("C06", "credit-exceeds-consumed", seq, f, "client granted %d bytes of credit in total but only %d bytes of response data have reached it", st.c2sCredit, st.s2cDataDelivered)
			}
		}
	case FNone:
		if judge {
			viol("C13", "empty-frame", seq, f, "frame without content")
		}
	}
}

func wireS2C(w *World, c *wireConn, seq int64, emit bool, f *FrameInfo, viol violFn) {
	judge := !c.meta.ServerRaw
	if emit {
		c.serverFrames++
	}
	if f.Type == FSettings {
		if !emit {
			return
		}
		c.settings++
		if c.settings == 1 {
			c.srvWindow = f.Window // only the first settings frame counts
		}
		if judge {
			if !c.meta.Negotiated {
				viol("C11", "settings-unnegotiated", seq, f, "settings sent although the client did not advertise negotiation")
			}
			if c.serverFrames != 1 {
				viol("C13", "settings-not-first", seq, f, "settings is server frame number %d", c.serverFrames)
			}
			if f.StreamID != -1 {
				viol("C13", "settings-bad-id", seq, f, "settings carries stream id %d", f.StreamID)
			}
			if c.settings > 1 {
				viol("C13", "settings-repeated", seq, f, "settings sent %d times", c.settings)
			}
		}
		return
	}
	if emit && judge && c.meta.Negotiated && c.settings == 0 {
		viol("C13", "settings-missing", seq, f, "negotiated tunnel: first server frame is not settings")
		c.settings = -1000 // report once
	}
	st := c.streams[f.StreamID]
	if st == nil || (emit && st.newDeliver == 0) {
		if emit && judge {
			viol("C13", "frame-for-unknown-stream", seq, f, "server frame for a stream id whose new_stream was never delivered")
		}
		return
	}
	if !emit {
		switch f.Type {
		case FWinUpd:
			st.s2cCreditDelivered += int64(f.Window)
		case FRespMsg, FMoreResp:
			st.s2cDataDelivered += int64(f.DataLen)
		}
		return
	}
	if st.closes > 0 && f.Type != FClose {
		st.afterClose++
		if judge && st.firstAfterClose == 0 {
			st.firstAfterClose = seq
			st.firstAfterCloseF = f
		}
	}
	switch f.Type {
	case FRespHdr:
		st.headers++
		if judge {
			if st.headers > 1 {
				viol("C13", "headers-twice", seq, f, "response_headers sent %d times", st.headers)
			}
			if st.msgs > 0 || st.s2cAsm.active {
				viol("C13", "headers-after-message", seq, f, "response_headers after response data")
			}
		}
	case FRespMsg, FMoreResp:
		if !judge {
			st.s2cData += int64(f.DataLen)
			return
		}
		if f.DataLen > chunkLimit {
			viol("C06", "chunk-too-large", seq, f, "%d bytes of message data in one frame (limit %d)", f.DataLen, chunkLimit)
		}
		app := st.rpc >= 0
		if f.Type == FRespMsg {
			if st.s2cAsm.active && app {
				viol("C13", "envelope-before-previous-finished", seq, f, "response envelope while the previous message has %d/%d bytes", st.s2cAsm.got, st.s2cAsm.size)
			}
			st.s2cAsm = asmState{active: true, size: f.Size, got: uint32(f.DataLen)}
			st.msgs++
		} else {
			if !st.s2cAsm.active && app {
				viol("C13", "continuation-without-envelope", seq, f, "more_response_data without a message in progress")
			}
			st.s2cAsm.got += uint32(f.DataLen)
		}
		if st.s2cAsm.got > st.s2cAsm.size {
			viol("C13", "chunks-exceed-size", seq, f, "chunks add up to %d > declared size %d", st.s2cAsm.got, st.s2cAsm.size)
		}
		st.s2cData += int64(f.DataLen)
		if st.s2cAsm.got >= st.s2cAsm.size {
			st.s2cAsm.active = false
			st.s2cMsgEnds = append(st.s2cMsgEnds, st.s2cData)
		}
		if c.fcActive(st) {
			if out := st.s2cData - st.c2sCreditDelivered; out > int64(st.cliWindow) {
				viol("C06", "sender-overrun", seq, f, "server has %d un-credited response bytes on the wire, the client advertised %d", out, st.cliWindow)
			}
		}
	case FClose:
		st.closes++
		if st.closes == 1 {
			st.closeEmit = seq
			st.closeCode = f.Code
		}
		if judge {
			if st.closes > 1 {
				viol("C13", "close-twice", seq, f, "close_stream sent %d times", st.closes)
			}
			st.closeMidMsg = st.s2cAsm.active
		}
	case FWinUpd:
		st.s2cCredit += int64(f.Window)
		if judge {
			if st.revision != 1 {
				viol("C11", "window-update-on-rev0", seq, f, "window_update on a revision-%d stream", st.revision)
			}
			if st.s2cCredit > st.c2sDataDelivered {
				viol("C06", "credit-exceeds-consumed", seq, f, "server granted %d bytes of credit in total but only %d bytes of request data have reached it", st.s2cCredit, st.c2sDataDelivered)
			}
		}
	case FNone:
		if judge {
			viol("C13", "empty-frame", seq, f, "frame without content")
		}
	}
}

// sortStepsFast: heap sort via less/swap closures (no reflection, no allocation).
func sortStepsFast[T any](s []T, less func(a, b int) bool, swap func(a, b int)) {
	n := len(s)
	sift := func(lo, hi int) {
		root := lo
		for {
			child := 2*root + 1
			if child >= hi {
				return
			}
			if child+1 < hi && less(child, child+1) {
				child++
			}
			if !less(root, child) {
				return
			}
			swap(root, child)
			root = child
		}
	}
	for i := (n - 1) / 2; i >= 0; i-- {
		sift(i, n)
	}
	for i := n - 1; i >= 0; i-- {
		swap(0, i)
		sift(0, i)
	}
}
