package sim

import (
	"fmt"

	"google.golang.org/grpc/metadata"

	"github.com/jhump/grpctunnel"

	"verif/simrt"
)

// Family identity (C17): handlers and callers can identify the tunnel, the peer
// and the opening metadata; what the accessors return is a private copy.

func init() {
	register(&Family{
		Name:       "identity",
		Run:        runIdentity,
		Oracles:    []func(*World, *History){OracleC17, OracleC01, OracleLeak},
		Nontrivial: func(w *World, h *History) bool { return h.Derived["probe.identity_probes"] >= 2 },
	})
}

func runIdentity(w *World, rs *RunSpec) {
	c := w.C
	cfg := drawTunnelCfg(c, false)
	cfg.Carrier.LatC2S, cfg.Carrier.LatS2C = 0, 0
	cfg.OpenMD = GenMD(c, 3, false)
	// every other forward tunnel is opened through a stub whose client stream
	// interceptor adds metadata to the opening call: the tunnel's opening
	// metadata is what went out, not what the caller's context held
	cfg.Intercept = len(cfg.OpenMD)%2 == 0
	w.Desc["stub_interceptor"] = cfg.Intercept
	describeTunnel(w, cfg)
	t, err := w.OpenTunnel(cfg)
	if err != nil {
		w.Violate("C11", "shape-failed", "tunnel could not be established: "+err.Error(), nil)
		return
	}
	tunnels := []*Tunnel{t}
	// several reverse tunnels behind one handler
	if cfg.Topo == TopoReverse {
		extra := c.Intn(4, "extratunnels")
		for i := 0; i < extra; i++ {
			cfg2 := cfg
			cfg2.OpenMD = GenMD(c, 3, false)
			cfg2.shareHandler = t.Handler
			cfg2.shareStub = t.Car
			t2 := &Tunnel{W: w, Idx: len(w.Tunnels), Cfg: cfg2}
			t2.Name = fmt.Sprintf("t%d", t2.Idx)
			w.Tunnels = append(w.Tunnels, t2)
			if err := w.openReverse(t2, nil); err != nil {
				return
			}
			tunnels = append(tunnels, t2)
		}
	}
	w.Desc["n_tunnels"] = len(tunnels)
	n := 2 + c.Intn(5, "nidrpc")
	var plans []*RPCPlan
	for i := 0; i < n; i++ {
		p := GenPlan(c, i, GenOpts{MaxMsgs: 2, SmallOnly: true})
		p.Tunnel = tunnels[c.Intn(len(tunnels), "idtunnel")].Idx
		if cfg.Topo == TopoReverse && c.Intn(2, "idpool") == 1 {
			p.Via = "pool"
			p.Tunnel = t.Idx
		}
		p.OptChannel = true
		p.OptPeer = true
		if len(plans) == 0 && c.Intn(2, "idbare") == 1 {
			// one RPC without any request metadata: its handler must see
			// none - in particular not the tunnel-opening call's
			p.Bare, p.NoOutgoingMD, p.ReqMD, p.Creds = true, true, nil, nil
		}
		// the handler probes (and mutates) at a random point of its script
		at := c.Intn(len(p.Handler), "probeat")
		ops := append([]Op{}, p.Handler[:at]...)
		ops = append(ops, Op{Kind: OpProbe})
		p.Handler = append(ops, p.Handler[at:]...)
		if p.Shape != ShapeUnary {
			p.CallerRecv = append([]Op{{Kind: OpProbe}}, p.CallerRecv...)
		}
		plans = append(plans, p)
	}
	var descs []any
	for _, p := range plans {
		descs = append(descs, planDesc(p))
	}
	w.Desc["rpcs"] = descs
	cs := w.StartCallers(plans)
	cs.Wait()
	w.DrainAndProbe()
	w.FullShutdown()
	_ = simrt.ClassApp
}

// expectedOpenMD is what the tunnel-opening call carried (as the library sees it).
func expectedOpenMD(t *Tunnel) metadata.MD {
	md := metadata.MD{}
	for k, v := range t.Cfg.OpenMD {
		md[k] = append([]string(nil), v...)
	}
	md.Set("sim-tunnel", fmt.Sprint(t.Idx))
	if t.Cfg.Key != nil {
		md.Set("sim-key", fmt.Sprint(t.Cfg.Key))
	}
	md.Set("grpctunnel-negotiate", "on")
	if t.Cfg.Intercept && t.Car != nil && t.Car.Intercept && t.RevServer == nil && t.Outer == nil {
		md.Set("sim-intercepted", "by-the-stub")
	}
	return md
}

func mdEqualIgnoring(a, b metadata.MD, ignore ...string) bool {
	a, b = a.Copy(), b.Copy()
	// the negotiation header is there or not depending on the legacy-view
	// configuration of the carrier; it is not what this property is about
	ignore = append(ignore, "grpctunnel-negotiate")
	for _, k := range ignore {
		delete(a, k)
		delete(b, k)
	}
	return mdEqual(a, b)
}

// OracleC17 checks the four accessors against the tunnel that carried each RPC.
func OracleC17(w *World, h *History) {
	oracleUnidentified(w, h, "C17", false)
	byIdx := map[string]*Tunnel{}
	for _, t := range w.Tunnels {
		byIdx[fmt.Sprint(t.Idx)] = t
	}
	for _, id := range h.RPCIDs {
		r := h.RPCs[id]
		p := r.Plan
		if p == nil {
			continue
		}
		// which tunnel carried it? the caller's WithTunnelChannel target says so
		var carried *Tunnel
		for _, o := range r.Ops {
			if o.Res == nil || o.Res.Extra == nil {
				continue
			}
			if ch, ok := o.Res.Extra["chan_target"].(grpctunnel.TunnelChannel); ok && ch != nil {
				for _, t := range w.Tunnels {
					if t.Chan == ch {
						carried = t
					}
				}
				if carried == nil {
					w.AddViolation("C17", "channel-identity-wrong", fmt.Sprintf("rpc %d: WithTunnelChannel reported a channel that is none of the tunnels", id), nil, o.Ret)
				}
			}
		}
		if carried == nil {
			// "When the RPC completes, the given location will be updated with
			// the channel that handled the request": an RPC that reached a
			// handler was handled by a tunnel
			if term := r.Terminal(); p.OptChannel && term != nil && len(r.Handlers) > 0 {
				w.AddViolation("C17", "channel-identity-wrong", fmt.Sprintf("rpc %d (%s) was carried by a tunnel and has completed, but the location given to WithTunnelChannel is still empty", id, shapeNames[p.Shape]), map[string]string{"what": "location-not-written", "shape": shapeNames[p.Shape]}, term.Ret)
			}
			continue
		}
		if p.Via == "" && carried.Idx != p.Tunnel {
			w.AddViolation("C17", "channel-identity-wrong", fmt.Sprintf("rpc %d was issued on tunnel %d but WithTunnelChannel reported tunnel %d", id, p.Tunnel, carried.Idx), nil, 0)
		}
		exp := expectedOpenMD(carried)
		det := map[string]string{"topology": topoNames[carried.Cfg.Topo]}
		for _, o := range r.Ops {
			if o.Op != OpProbe || o.Res == nil {
				continue
			}
			h.Derived["probe.identity_probes"]++
			if hi, ok := o.Res.Extra["info"].(*HandlerInfo); ok && hi != nil {
				// the RPC's own request metadata, not the tunnel's
				expReq := metadata.MD{}
				if !p.Bare && !p.NoOutgoingMD {
					for k, v := range p.ReqMD {
						expReq[k] = append([]string(nil), v...)
					}
					expReq.Set("sim-rpc", fmt.Sprint(p.ID))
				}
				appendCredsExp(expReq, p)
				if !mdEqual(expReq, hi.ReqMD) {
					w.AddViolation("C17", "request-md-mismatch", fmt.Sprintf("rpc %d: the handler's metadata.FromIncomingContext = %s, the caller attached %s (the tunnel was opened with %s)", id, mdString(hi.ReqMD), mdString(expReq), mdString(exp)), det, o.Ret)
				}
				// handler side
				if !hi.HasTunnelMD || !mdEqualIgnoring(hi.TunnelMD, exp) {
					w.AddViolation("C17", "tunnel-md-mismatch", fmt.Sprintf("rpc %d: the handler's TunnelMetadataFromIncomingContext = %s (ok=%v), the tunnel that carried the RPC (tunnel %d) was opened with %s", id, mdString(hi.TunnelMD), hi.HasTunnelMD, carried.Idx, mdString(exp)), det, o.Ret)
				}
				again, _ := o.Res.Extra["tunnel_md_again"].(metadata.MD)
				if !mdEqualIgnoring(again, exp) {
					w.AddViolation("C17", "mutation-visible", fmt.Sprintf("rpc %d: after mutating the metadata returned by TunnelMetadataFromIncomingContext, a second call returned %s instead of %s", id, mdString(again), mdString(exp)), det, o.Ret)
				}
				// for a nested tunnel the tunnel-opening call is itself an RPC on the
				// outer tunnel, whose handler context carries the outer tunnel's value
				wantMarker := "marker-" + carried.Name
				if carried.Outer != nil && carried.RevServer == nil {
					wantMarker = "marker-" + carried.Outer.Name
				}
				if hi.Marker != wantMarker {
					w.AddViolation("C17", "ctx-value-missing", fmt.Sprintf("rpc %d: the context value set on the tunnel-opening call is %v in the handler's context, expected %q", id, hi.Marker, wantMarker), det, o.Ret)
				}
				servedByNetworkServer := carried.RevServer == nil
				if servedByNetworkServer && carried.Outer == nil && hi.Peer != "peer-"+carried.Name {
					w.AddViolation("C17", "peer-mismatch", fmt.Sprintf("rpc %d: the handler's peer is %q, the tunnel-opening call's peer is %q", id, hi.Peer, "peer-"+carried.Name), det, o.Ret)
				}
				continue
			}
			// caller side
			tm, _ := o.Res.Extra["tunnel_md"].(metadata.MD)
			ok, _ := o.Res.Extra["tunnel_md_ok"].(bool)
			if !ok || !mdEqualIgnoring(tm, exp) {
				w.AddViolation("C17", "tunnel-md-mismatch", fmt.Sprintf("rpc %d: the caller's TunnelMetadataFromOutgoingContext = %s (ok=%v), tunnel %d was opened with %s", id, mdString(tm), ok, carried.Idx, mdString(exp)), det, o.Ret)
			}
			again, _ := o.Res.Extra["tunnel_md_again"].(metadata.MD)
			if !mdEqualIgnoring(again, exp) {
				w.AddViolation("C17", "mutation-visible", fmt.Sprintf("rpc %d: after mutating the metadata returned by TunnelMetadataFromOutgoingContext, a second call returned %s instead of %s", id, mdString(again), mdString(exp)), det, o.Ret)
			}
			tc, _ := o.Res.Extra["tunnel_chan"].(grpctunnel.TunnelChannel)
			if tc != carried.Chan {
				w.AddViolation("C17", "channel-identity-wrong", fmt.Sprintf("rpc %d: TunnelChannelFromContext does not return the channel that carried the RPC", id), det, o.Ret)
			}
		}
	}
}
