package sim

import (
	"errors"
	"fmt"
	"google.golang.org/grpc/codes"
	"google.golang.org/grpc/metadata"
	"io"

	"github.com/jhump/grpctunnel/tunnelpb"

	"verif/simrt"
)

// Families idrace and idraw (C08).

func init() {
	register(&Family{
		Name:    "idrace",
		Run:     runIDRace,
		Oracles: []func(*World, *History){OracleInvocations, OracleC01, OracleLeak},
		Nontrivial: func(w *World, h *History) bool {
			return h.Derived["probe.concurrent_starts"] >= 2
		},
	})
	register(&Family{
		Name:       "idraw",
		Run:        runIDRaw,
		Oracles:    []func(*World, *History){OracleIDRaw, OracleInvocations, OracleLeak},
		Nontrivial: func(w *World, h *History) bool { return h.Derived["probe.raw_deviation_sent"] > 0 },
	})
}

// runIDRace: many goroutines start RPCs at once on one channel; some fail at start.
func runIDRace(w *World, rs *RunSpec) {
	c := w.C
	cfg := drawTunnelCfg(c, false)
	cfg.Carrier.LatC2S, cfg.Carrier.LatS2C = 0, 0
	describeTunnel(w, cfg)
	t, err := w.OpenTunnel(cfg)
	if err != nil {
		w.Violate("C11", "shape-failed", "tunnel could not be established: "+err.Error(), map[string]string{"topology": topoNames[cfg.Topo], "fc": fcNames[cfg.FC]})
		return
	}
	n := 2 + c.Intn(15, "nstarters")
	var plans []*RPCPlan
	for i := 0; i < n; i++ {
		p := GenPlan(c, i, GenOpts{MaxMsgs: 2, SmallOnly: true, NoMD: true})
		p.Tunnel = t.Idx
		p.StartGate = 900 // all released together
		switch c.Intn(8, "startfail") {
		case 5: // credentials fail
			p.Creds = &SimCreds{FailErr: errors.New("no creds today")}
		case 6: // already cancelled
			p.CancelAfter.Actor = "start"
		case 7: // credentials need a secure channel
			p.Creds = &SimCreds{Secure: true, MD: map[string]string{"k": "v"}}
		}
		if i%5 == 3 && p.Creds == nil && p.CancelAfter.Actor != "start" {
			// refused before anything is sent: a metadata value that cannot be
			// encoded (by position, not by a draw); nothing of it may reach the wire
			p.ReqMD = metadata.MD{"sim-bad": []string{"\xff\xfe"}}
			p.expectLocalReject = true
		}
		plans = append(plans, p)
	}
	w.Desc["n_starters"] = n
	cs := w.StartCallers(plans)
	simrt.AwaitIdle()
	w.OpenGate(900)
	cs.Wait()
	w.DrainAndProbe()
	w.FullShutdown()
}

// OracleInvocations (C08): each started RPC results in at most one invocation
// of exactly the named handler, exactly one when the call ran to completion.
func OracleInvocations(w *World, h *History) {
	started := 0
	for _, id := range h.RPCIDs {
		r := h.RPCs[id]
		p := r.Plan
		if p == nil {
			continue
		}
		if len(r.Ops) > 0 {
			started++
		}
		if len(r.Handlers) > 1 {
			w.AddViolation("C08", "double-invocation", fmt.Sprintf("rpc %d: its handler was invoked %d times", id, len(r.Handlers)), nil, r.Handlers[1].Start)
		}
		for _, hr := range r.Handlers {
			if p.Method != "" && hr.Method != p.Method && p.Method[0] == '/' && hr.Method != "" {
				w.AddViolation("C08", "wrong-handler", fmt.Sprintf("rpc %d called %s but handler %s was invoked", id, p.Method, hr.Method), nil, hr.Start)
			}
			if hr.Info != nil && hr.Info.ReqMD != nil {
				if v := hr.Info.ReqMD.Get("sim-rpc"); len(v) > 0 && v[0] != fmt.Sprint(id) {
					w.AddViolation("C08", "wrong-handler", fmt.Sprintf("handler invocation attributed to rpc %d carries request metadata of rpc %s", id, v[0]), nil, hr.Start)
				}
			}
		}
		term := r.Terminal()
		if term != nil && (term.Res.Err == nil || (term.Op == OpRecv && term.Res.Err == io.EOF)) && len(r.Handlers) != 1 && p.Role != "raw" {
			w.AddViolation("C08", "missing-invocation", fmt.Sprintf("rpc %d completed OK at the caller but its handler was invoked %d times", id, len(r.Handlers)), nil, term.Ret)
		}
	}
	if started >= 2 {
		h.Derived["probe.concurrent_starts"] = int64(started)
	}
}

// Raw id deviations.
const (
	IDDevNone = iota
	IDDevReuseLive
	IDDevReuseFinished
	IDDevBackwards
	IDDevNegative
	IDDevFramesForFinished
	IDDevSkipAhead
	IDDevFrameForNeverCreated
	IDDevFramesForRefusedID // a stream refused because the server is draining: its further frames are ignored
	IDDevReuseRefusedID     // ... and its id counts as seen: using it again ends the tunnel
	NumIDDev
)

var idDevNames = [...]string{"none", "reuse-live-id", "reuse-finished-id", "backwards-id", "negative-id", "frames-for-finished-id", "skip-ahead", "frame-for-never-created-id", "frames-for-id-refused-while-draining", "reuse-id-refused-while-draining"}

// tunnelLevel says whether the documented outcome of the deviation is the end of the tunnel.
func idDevTunnelLevel(d int) bool {
	switch d {
	case IDDevReuseLive, IDDevReuseFinished, IDDevBackwards, IDDevNegative, IDDevFrameForNeverCreated, IDDevReuseRefusedID:
		return true
	}
	return false
}

type rawIDState struct {
	dev       int
	lastID    int64 // id of the probe stream sent after the deviation
	firstIDs  []int64
	devSent   bool
	rc        *RawClient
	probeSent bool
	// draining deviations
	draining      bool
	refusedClosed bool
	refusedCode   int32
}

func runIDRaw(w *World, rs *RunSpec) {
	c := w.C
	cfg := RawCfg{Reverse: c.Intn(2, "rawrev") == 1, Negotiate: c.Intn(4, "rawneg") != 0, DisableFC: c.Intn(5, "rawdisfc") == 4}
	cfg.Carrier = GenCarrier(c)
	cfg.Carrier.LatC2S, cfg.Carrier.LatS2C = 0, 0
	dev := rs.P("dev", -1)
	if dev < 0 {
		dev = c.Intn(NumIDDev, "iddev")
	}
	w.Desc["raw"] = fmt.Sprintf("client reverse=%v negotiate=%v real-end-disables-fc=%v", cfg.Reverse, cfg.Negotiate, cfg.DisableFC)
	w.Desc["deviation"] = idDevNames[dev]
	w.Desc["carrier"] = cfg.Carrier.String()
	st := &rawIDState{dev: dev}
	w.rawID = st
	rev := tunnelpb.ProtocolRevision_REVISION_ZERO
	if cfg.Negotiate && !cfg.DisableFC {
		rev = tunnelpb.ProtocolRevision_REVISION_ONE
	}
	nvalid := 1 + c.Intn(3, "nvalid")
	step := func() int64 { return 1 + int64(c.Intn(3, "idstep")) }
	// pre-draw everything: the script itself must not draw in an order that
	// depends on the schedule
	var ids []int64
	id := int64(c.Intn(3, "id0"))
	for i := 0; i < nvalid; i++ {
		ids = append(ids, id)
		id += step()
	}
	probe := id + 5
	skip := id + 1000 + int64(c.Intn(100000, "skipby"))
	keepLive := c.Intn(2, "keeplive") == 1
	script := func(rc *RawClient) {
		st.rc = rc
		if cfg.Negotiate {
			rc.WaitFor(rc.HaveSettings)
		}
		for i, sid := range ids {
			p := rawPlan(w, i, ShapeUnary)
			if i == len(ids)-1 && (dev == IDDevReuseLive || keepLive) {
				// keep the last stream live: its handler parks
				p.Handler = []Op{{Kind: OpRecv}, {Kind: OpPause, N: 950}, {Kind: OpSend, N: 0}, {Kind: OpReturn}}
			}
			rc.Send(FNew(sid, "/sim.Test/Unary", p.ID, rev, 65536, nil))
			rc.SendMessage(sid, RequestBytes(p.ID, 0, p.ReqSizes[0]), 0)
			rc.Send(FHalf(sid))
		}
		st.firstIDs = ids
		live := ids[len(ids)-1]
		finished := ids[0]
		if len(ids) > 1 || !(dev == IDDevReuseLive || keepLive) {
			// wait until the first stream has been closed by the server
			rc.WaitFor(func() bool { ok, _, _ := rc.Closed(finished); return ok })
		}
		mk := func(sid int64, rpc int) {
			p := rawPlan(w, rpc, ShapeUnary)
			rc.Send(FNew(sid, "/sim.Test/Unary", p.ID, rev, 65536, nil))
			rc.SendMessage(sid, RequestBytes(p.ID, 0, p.ReqSizes[0]), 0)
			rc.Send(FHalf(sid))
		}
		simrt.Emit(simrt.Event{Kind: EvCheckpoint, S: "raw-deviation"})
		switch dev {
		case IDDevReuseLive:
			mk(live, 50)
		case IDDevReuseFinished:
			if len(ids) > 1 {
				mk(finished, 50)
			} else {
				rc.WaitFor(func() bool { ok, _, _ := rc.Closed(finished); return ok || keepLive })
				mk(finished, 50)
			}
		case IDDevBackwards:
			mk(ids[len(ids)-1]-1-int64(len(ids)), 50)
		case IDDevNegative:
			mk(-2-int64(c2i(keepLive)), 50)
		case IDDevFramesForFinished:
			rc.SendMessage(finished, RequestBytes(0, 0, 10), 0)
			rc.Send(FHalf(finished))
			rc.Send(FCancelFrame(finished))
			rc.Send(FWin(finished, 100))
		case IDDevSkipAhead:
			mk(skip, 50)
			probe = skip + 7
		case IDDevFrameForNeverCreated:
			rc.SendMessage(probe+100, RequestBytes(0, 0, 10), 0)
		case IDDevFramesForRefusedID, IDDevReuseRefusedID:
			// the real end starts draining; the next stream is refused
			// (Unavailable), which finishes with its id like any other outcome
			t := w.Tunnels[0]
			// (the real end must be serving: draining before Serve has
			// registered the tunnel refuses the tunnel itself)
			simrt.AwaitIdle() // everything sent so far has been delivered and acted upon
			if t.RevServer != nil {
				simrt.Go("graceful", func() { t.RevServer.GracefulStop() })
				simrt.AwaitIdle()
			} else {
				t.Handler.InitiateShutdown()
			}
			st.draining = true
			refused := probe - 2
			mk(refused, 50) // new_stream + message + half-close
			rc.WaitFor(func() bool { ok, _, _ := rc.Closed(refused); return ok })
			st.refusedClosed, st.refusedCode, _ = rc.Closed(refused)
			if dev == IDDevFramesForRefusedID {
				rc.SendMessage(refused, RequestBytes(0, 0, 10), 0)
				rc.Send(FHalf(refused))
				rc.Send(FCancelFrame(refused))
			} else {
				mk(refused, 51)
			}
		}
		st.devSent = true
		simrt.Count(CntFaultPeerMisbehave, 1)
		// a probe stream: does the tunnel still work?
		st.lastID = probe
		mk(probe, 60)
		st.probeSent = true
		rc.WaitFor(func() bool { ok, _, _ := rc.Closed(probe); return ok })
		simrt.Emit(simrt.Event{Kind: EvCheckpoint, S: "raw-probe-done"})
		w.OpenGate(950)
		if !rc.Ended {
			rc.WaitFor(func() bool { ok, _, _ := rc.Closed(live); return ok })
		}
		rc.Hangup()
	}
	_, t := w.OpenRawClient(cfg, script)
	_ = t
	w.DrainAndProbe()
	w.OpenGate(950)
	w.FullShutdown()
}

func c2i(b bool) int {
	if b {
		return 1
	}
	return 0
}

// rawPlan registers the plan a raw-driven RPC's handler follows.
func rawPlan(w *World, rpc int, shape int) *RPCPlan {
	if p := w.Plans[rpc]; p != nil {
		return p
	}
	p := &RPCPlan{ID: rpc, Shape: shape, Method: shapeMethods[shape], Role: "raw", Res: &RPCResult{}}
	p.CancelAfter.Idx = -1
	p.ReqSizes = []int{10 + rpc%7}
	p.RespSizes = []int{5 + rpc%5}
	switch shape {
	case ShapeUnary:
		p.Handler = []Op{{Kind: OpRecv}, {Kind: OpSend, N: 0}, {Kind: OpReturn}}
	case ShapeClientStream:
		p.Handler = []Op{{Kind: OpRecvAll}, {Kind: OpSend, N: 0}, {Kind: OpReturn}}
	case ShapeServerStream:
		p.Handler = []Op{{Kind: OpRecv}, {Kind: OpSendAll}, {Kind: OpReturn}}
	case ShapeBidi:
		p.Handler = []Op{{Kind: OpRecvAll}, {Kind: OpSendAll}, {Kind: OpReturn}}
	}
	w.mu.Lock()
	w.Plans[rpc] = p
	w.mu.Unlock()
	return p
}

// OracleIDRaw: a reused / non-increasing id ends that tunnel with an error;
// skipped-ahead ids are accepted; frames for finished ids change nothing.
func OracleIDRaw(w *World, h *History) {
	st := w.rawID
	if st == nil || st.rc == nil || !st.devSent {
		return
	}
	h.Derived["probe.raw_deviation_sent"]++
	rc := st.rc
	det := map[string]string{"deviation": idDevNames[st.dev]}
	t := w.Tunnels[0]
	// how did the serving call end?
	var serveErr error
	served := false
	if t.RevServer != nil {
		served, serveErr = t.ServeReturned, t.ServeErr
	} else if t.Conn != nil {
		for _, e := range h.ConnEnds[t.Conn.ID] {
			if e.S == "server-return" {
				served = true
				if e.S2 != "" {
					serveErr = errors.New(e.S2)
				}
			}
		}
	}
	probeClosed, probeCode, _ := rc.Closed(st.lastID)
	var devSeq int64
	for _, e := range h.Evs {
		if e.Kind == EvCheckpoint && e.S == "raw-deviation" {
			devSeq = e.Seq
		}
	}
	if idDevTunnelLevel(st.dev) {
		if probeClosed && probeCode == 0 {
			w.AddViolation("C08", "bad-id-accepted", fmt.Sprintf("after %s the tunnel kept working: a later stream (id %d) completed OK", idDevNames[st.dev], st.lastID), det, devSeq)
		}
		if !served {
			w.AddViolation("C08", "bad-id-accepted", fmt.Sprintf("after %s the serving call has not returned", idDevNames[st.dev]), det, devSeq)
		} else if serveErr == nil {
			w.AddViolation("C08", "bad-id-accepted", fmt.Sprintf("after %s the serving call returned nil instead of an error", idDevNames[st.dev]), det, devSeq)
		}
		// the deviating new_stream must not have produced a handler invocation
		if r := h.RPCs[50]; r != nil && len(r.Handlers) > 0 {
			w.AddViolation("C08", "bad-id-accepted", fmt.Sprintf("the new_stream with a bad id (%s) invoked a handler", idDevNames[st.dev]), det, r.Handlers[0].Start)
		}
		return
	}
	// stream-level / harmless deviations: the tunnel must still work
	if st.draining {
		// a draining server refuses every new stream with Unavailable, the
		// probe included; what matters is that the tunnel is still there to
		// answer, and that nothing reached a handler
		if !st.refusedClosed || st.refusedCode != int32(codes.Unavailable) {
			w.AddViolation("C08", "finished-id-frame-effect", fmt.Sprintf("a stream started while the server is draining was not refused with Unavailable (closed=%v code=%d)", st.refusedClosed, st.refusedCode), det, devSeq)
		}
		if !probeClosed || probeCode != int32(codes.Unavailable) {
			w.AddViolation("C08", "finished-id-frame-effect", fmt.Sprintf("after %s a later stream (id %d) was not answered with Unavailable (closed=%v code=%d; tunnel ended: %v %v)", idDevNames[st.dev], st.lastID, probeClosed, probeCode, rc.Ended, rc.RecvErr), det, devSeq)
		}
		for _, id := range []int{50, 60} {
			if r := h.RPCs[id]; r != nil && len(r.Handlers) > 0 {
				w.AddViolation("C08", "double-invocation", fmt.Sprintf("a stream refused while draining (rpc %d) reached a handler", id), det, r.Handlers[0].Start)
			}
		}
	} else if !probeClosed || probeCode != 0 {
		w.AddViolation("C08", "finished-id-frame-effect", fmt.Sprintf("after %s a later valid stream (id %d) did not complete OK (closed=%v code=%d; tunnel ended: %v %v)", idDevNames[st.dev], st.lastID, probeClosed, probeCode, rc.Ended, rc.RecvErr), det, devSeq)
	}
	if st.dev == IDDevSkipAhead {
		if r := h.RPCs[50]; r == nil || len(r.Handlers) != 1 {
			w.AddViolation("C08", "finished-id-frame-effect", "a stream with a skipped-ahead id was not served", det, devSeq)
		}
	}
	if served && serveErr != nil && !errors.Is(serveErr, io.EOF) {
		// ended with an error although nothing tunnel-level happened (hang-up is clean)
		w.AddViolation("C08", "finished-id-frame-effect", fmt.Sprintf("after %s the serving call ended with an error: %v", idDevNames[st.dev], serveErr), det, devSeq)
	}
}
