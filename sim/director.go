package sim

import (
	"unsafe"

	"verif/simrt"
)

// Director-side helpers: launching callers, waiting for them (or for a stall),
// frame-count triggered faults.

type callerSet struct {
	n, done int
	key     byte
}

// StartCallers launches one caller goroutine per plan.
func (w *World) StartCallers(plans []*RPCPlan) *callerSet {
	cs := &callerSet{n: len(plans)}
	for _, p := range plans {
		p := p
		w.Plans[p.ID] = p
		simrt.Go("caller", func() {
			defer cs.finish()
			if p.Role == "interest" {
				w.runInterestCaller(p)
				return
			}
			w.RunCaller(w.RootCtx, w.ClientConnFor(p), p)
		})
	}
	return cs
}

//go:norace
func (cs *callerSet) finish() {
	cs.done++
	simrt.Wake(unsafe.Pointer(&cs.key))
}

// Wait blocks until every caller finished; false means the run stalled first.
//
//go:norace
func (cs *callerSet) Wait() bool {
	for cs.done < cs.n {
		if !simrt.WaitOrStall(unsafe.Pointer(&cs.key)) {
			return cs.done >= cs.n
		}
	}
	return true
}

// Done reports whether all callers have finished.
//
//go:norace
func (cs *callerSet) Done() bool { return cs.done >= cs.n }

type frameTrigger struct {
	at   int
	gate int
}

// AtFrame arranges for action to run in its own goroutine once the k-th frame
// (counted over all carriers) has been emitted. Which step it then runs at is
// the scheduler's decision.
func (w *World) AtFrame(k int, name string, action func()) {
	w.gateSeq++
	gate := 1000000 + w.gateSeq
	w.frameTriggers = append(w.frameTriggers, frameTrigger{at: k, gate: gate})
	simrt.Go("fault."+name, func() {
		w.Gate(gate).Wait(w.RootCtx)
		if w.RootCtx.Err() != nil {
			return
		}
		simrt.Emit(simrt.Event{Kind: EvFault, S: name, A: int64(k)})
		action()
	})
}

func (w *World) onFrame() {
	if w.frameTriggers == nil {
		return
	}
	w.frameCount++
	for _, t := range w.frameTriggers {
		if t.at == w.frameCount {
			w.OpenGate(t.gate)
		}
	}
}

// Note records free text in the history.
func Note(s string) { simrt.Emit(simrt.Event{Kind: EvNote, S: s}) }

// runInterestCaller is RunCaller under a name that identifies the RPC of
// interest's caller goroutine in a stack dump.
//
//go:noinline
func (w *World) runInterestCaller(p *RPCPlan) {
	w.RunCaller(w.RootCtx, w.ClientConnFor(p), p)
}

// interestSender likewise for the sender goroutine of the RPC of interest.
//
//go:noinline
func interestSender(f func()) { f() }

func unsafePtr(b *byte) unsafe.Pointer { return unsafe.Pointer(b) }
