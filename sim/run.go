package sim

import (
	"context"
	"fmt"
	"runtime/debug"
	"strings"
	"testing"
	"testing/synctest"
	"time"

	"verif/simrt"
)

// Family is a scenario family: a director run as the first simulated goroutine
// and the oracles evaluated over the recorded history afterwards.
type Family struct {
	Name string
	// Run is the director. It draws the configuration and workload from w.C,
	// sets the world up, drives the scenario and returns when done.
	Run func(w *World, rs *RunSpec)
	// Oracles are evaluated after the run over the merged history.
	Oracles []func(w *World, h *History)
	// Nontrivial reports whether the run exercised the property's trigger.
	Nontrivial func(w *World, h *History) bool
}

var Families = map[string]*Family{}

func register(f *Family) { Families[f.Name] = f }

// RunSpec identifies one run.
type RunSpec struct {
	Family string   `json:"family"`
	Seed   uint64   `json:"seed"`
	Run    uint64   `json:"run"`
	Tier   string   `json:"tier"`
	Replay []uint32 `json:"replay,omitempty"`
	// Param carries family-specific enumeration parameters (fault point k,
	// termination cause, ...). -1 / "" mean "draw from the chooser".
	Param    map[string]int `json:"param,omitempty"`
	KeepLog  bool           `json:"keep_log,omitempty"`
	Property string         `json:"property,omitempty"` // which property's check asked for the run
}

func (rs *RunSpec) P(name string, def int) int {
	if rs.Param == nil {
		return def
	}
	if v, ok := rs.Param[name]; ok {
		return v
	}
	return def
}

// RunOutput is what a run reports to the driver.
type RunOutput struct {
	Spec          RunSpec          `json:"spec"`
	Violations    []Violation      `json:"violations,omitempty"`
	Steps         int64            `json:"steps"`
	Digest        string           `json:"digest"`
	SimTimeNs     int64            `json:"sim_time_ns"`
	Counters      map[string]int64 `json:"counters,omitempty"`
	Desc          map[string]any   `json:"desc,omitempty"`
	Choices       []uint32         `json:"choices,omitempty"`
	NChoices      int              `json:"n_choices"`
	Nontrivial    bool             `json:"nontrivial"`
	Pairs         []uint64         `json:"pairs,omitempty"`
	NPairs        int              `json:"n_pairs"`
	Stalled       bool             `json:"stalled,omitempty"`
	Budget        bool             `json:"budget,omitempty"`
	MaxLive       int              `json:"max_live"`
	Events        int              `json:"events"`
	Frames        int              `json:"frames"`
	History       []string         `json:"history,omitempty"` // human-readable, only when asked / on violation
	SchedLog      []string         `json:"sched_log,omitempty"`
	Infra         string           `json:"infra,omitempty"` // simulator trouble (never a violation)
	UnknownYields int64            `json:"unknown_yields,omitempty"`
	UnknownSpawns int64            `json:"unknown_spawns,omitempty"`
	ClassSteps    [6]int64         `json:"class_steps"`
	WallUs        int64            `json:"wall_us"`
	Inconclusive  int              `json:"inconclusive,omitempty"`
}

// drawSimConfig picks scheduling policy and granularity for the run (swarm).
func drawSimConfig(c *Chooser, w *World) simrt.Config {
	cfg := simrt.Config{}
	cfg.Policy = c.Intn(simrt.NumPolicies, "policy")
	switch cfg.Policy {
	case simrt.PolSticky:
		cfg.StickyPct = Pick(c, "stickypct", 50, 80, 95)
	case simrt.PolPCT:
		cfg.PCTDepth = 1 + c.Intn(5, "pctdepth")
		cfg.PCTHorizon = Pick(c, "pcthorizon", 200, 1000, 5000)
	case simrt.PolStarve:
		// which goroutine is starved is decided by the family through w.StarvePrefix
	}
	// granularity: 0 = everything (value 0 = simplest to describe, finest grain)
	switch c.Intn(4, "grain") {
	case 0:
		cfg.ClassMask = 0xFFFFFFFF
	case 1:
		cfg.ClassMask = 1<<simrt.ClassAtomic | 1<<simrt.ClassGo | 1<<simrt.ClassApp
	case 2:
		cfg.ClassMask = 1<<simrt.ClassChan | 1<<simrt.ClassGo | 1<<simrt.ClassApp
	case 3:
		cfg.ClassMask = 1 << simrt.ClassApp
	}
	w.Desc["policy"] = [...]string{"random", "sticky", "pct", "starve", "round-robin"}[cfg.Policy]
	w.Desc["grain_mask"] = cfg.ClassMask
	return cfg
}

// RunOne executes one run inside a fresh synctest bubble.
func RunOne(t *testing.T, rs RunSpec) (out *RunOutput) {
	out = &RunOutput{Spec: rs}
	fam := Families[rs.Family]
	if fam == nil {
		out.Infra = "unknown family " + rs.Family
		return out
	}
	t0 := time.Now()
	defer func() {
		out.WallUs = time.Since(t0).Microseconds()
	}()
	var ch *Chooser
	if rs.Replay != nil {
		ch = NewReplayChooser(rs.Replay)
	} else {
		ch = NewChooser(rs.Seed, rs.Run)
	}
	var w *World
	var sim *simrt.Sim
	var res *simrt.Result
	var evs []simrt.Event
	func() {
		defer func() {
			if r := recover(); r != nil {
				msg := fmt.Sprint(r)
				if strings.Contains(msg, "deadlock: main bubble goroutine has exited") {
					// goroutines blocked inside the Go runtime were left behind;
					// they are reported through Result.Live by the leak oracle.
					return
				}
				out.Infra = "panic in harness: " + msg + "\n" + string(debug.Stack())
			}
		}()
		synctest.Test(t, func(t *testing.T) {
			w = NewWorld(ch)
			cfg := drawSimConfig(ch, w)
			cfg.KeepLog = rs.KeepLog
			if v := rs.P("max_steps", 0); v > 0 {
				cfg.MaxSteps = int64(v)
			}
			w.SimCfg = &cfg
			sim = simrt.New(cfg, ch)
			w.Sim = sim
			w.RootCtx, w.RootCancel = context.WithCancel(context.Background())
			res = sim.Run(func() {
				fam.Run(w, &rs)
				// the director is done: release everything the harness holds
				w.RootCancel()
			})
			w.RootCancel()
			for _, t := range w.Tunnels {
				if t.OpenCancel != nil {
					t.OpenCancel()
				}
			}
			evs = sim.Events()
		})
	}()
	simrt.Uninstall()
	if w == nil || res == nil {
		if out.Infra == "" {
			out.Infra = "run did not complete"
		}
		return out
	}
	h := BuildHistory(w, evs, res)
	for _, o := range fam.Oracles {
		o(w, h)
	}
	OracleWire(w, h)
	commonOracles(w, h)
	out.Violations = dedupViolations(w.Viol)
	out.Steps = res.Steps
	out.Digest = fmt.Sprintf("%016x", res.Digest)
	out.SimTimeNs = int64(res.VirtualElapsed)
	out.Desc = w.Desc
	out.NChoices = ch.nrec
	out.Stalled, out.Budget = res.Stalled, res.Budget
	out.MaxLive = res.MaxLive
	out.Events = len(evs)
	out.Frames = h.NFrames
	out.UnknownYields, out.UnknownSpawns = res.UnknownYields, res.UnknownSpawns
	out.ClassSteps = sim.ClassCounts()
	out.NPairs = res.SwitchPairs
	out.Pairs = sim.PairKeys()
	out.Inconclusive = w.Inconclusive
	cs := sim.Counters()
	out.Counters = map[string]int64{}
	for i, n := range CounterNames {
		if n != "" && cs[i] != 0 {
			out.Counters[n] = cs[i]
		}
	}
	for k, v := range h.Derived {
		out.Counters[k] += v
	}
	if fam.Nontrivial != nil {
		out.Nontrivial = fam.Nontrivial(w, h)
	} else {
		out.Nontrivial = res.MaxLive >= 3
	}
	if len(out.Violations) > 0 || rs.KeepLog {
		out.Choices = ch.Recorded()
		out.History = h.Render(400)
	}
	if rs.KeepLog {
		for _, s := range sim.Log() {
			out.SchedLog = append(out.SchedLog, fmt.Sprintf("%s c%d", sim.GName(s.G), s.Class))
		}
	}
	return out
}

func dedupViolations(vs []Violation) []Violation {
	seen := map[string]bool{}
	var out []Violation
	for _, v := range vs {
		k := v.Key() + "|" + fmt.Sprint(v.Detail)
		if seen[k] {
			continue
		}
		seen[k] = true
		out = append(out, v)
	}
	return out
}
