package sim

import (
	"fmt"
	"io"
	"time"

	"google.golang.org/grpc/codes"

	"verif/simrt"
)

// Family graceful (C10): in-flight RPCs, graceful shutdown initiated at frame
// k (InitiateShutdown on a forward tunnel's handler, GracefulStop in its own
// goroutine on a reverse-tunnel server), further RPCs attempted afterwards,
// optionally Stop later.

func init() {
	register(&Family{
		Name:    "graceful",
		Run:     runGraceful,
		Oracles: []func(*World, *History){OracleHungRoles("C10", "bystander"), OracleC10, OracleStopCalls, OracleC01, OracleLeak},
		Nontrivial: func(w *World, h *History) bool {
			return h.Derived["probe.graceful_with_inflight"] > 0
		},
	})
}

func runGraceful(w *World, rs *RunSpec) {
	c := w.C
	cfg := drawTunnelCfg(c, false)
	describeTunnel(w, cfg)
	t, err := w.OpenTunnel(cfg)
	if err != nil {
		w.Violate("C11", "shape-failed", "tunnel could not be established: "+err.Error(), map[string]string{"topology": topoNames[cfg.Topo], "fc": fcNames[cfg.FC]})
		return
	}
	k := rs.P("k", -2)
	cause := rs.P("cause", -2)
	if cause == -2 {
		cause = c.Intn(2, "gcause")
	}
	if k == -2 {
		k = 1 + c.Intn(50, "gk")
	}
	reverse := t.RevServer != nil
	nin := c.Intn(4, "ninflight")
	var inflight []*RPCPlan
	nap := func() time.Duration { return time.Duration(1+c.Intn(15, "nap")) * time.Millisecond }
	for i := 0; i < nin; i++ {
		p := bystanderPlan(c, i, t.Idx)
		// keep it in flight for a while
		switch c.Intn(3, "gphase") {
		case 0:
			p.Handler = append([]Op{{Kind: OpSleep, D: nap()}}, p.Handler...)
		case 1:
			at := len(p.Handler)
			if at > 0 && p.Handler[at-1].Kind == OpReturn {
				at--
			}
			ops := append([]Op{}, p.Handler[:at]...)
			ops = append(ops, Op{Kind: OpSleep, D: nap()})
			p.Handler = append(ops, p.Handler[at:]...)
		}
		inflight = append(inflight, p)
	}
	nlate := 1 + c.Intn(4, "nlate")
	var late []*RPCPlan
	for i := 0; i < nlate; i++ {
		p := GenPlan(c, 100+i, GenOpts{MaxMsgs: 3, ByteBudget: 50000})
		p.Tunnel = t.Idx
		p.Role = "late"
		// every RPC started after the shutdown is refused with Unavailable,
		// whatever it names (by position, not by a draw)
		switch i {
		case 1:
			p.Method = "/sim.Test/NoSuchMethod"
		case 2:
			p.Method = "/nosuch.Service/Method"
		case 3:
			p.Method = "no-slash-at-all"
		}
		if reverse && c.Intn(2, "latevia") == 1 {
			p.Via = "pool"
		}
		late = append(late, p)
	}
	var descs []any
	for _, p := range append(append([]*RPCPlan{}, inflight...), late...) {
		d := planDesc(p)
		d["role"] = p.Role
		descs = append(descs, d)
	}
	w.Desc["rpcs"] = descs
	w.Desc["fault_frame"] = k
	w.Desc["cause"] = [...]string{"graceful", "graceful-then-stop"}[max(cause, 0)]
	if k < 0 {
		w.Desc["cause"] = "none (baseline)"
	}
	w.Desc["disturbers"] = []string{"graceful-shutdown"}

	// multistop: further GracefulStop / Stop calls overlap the first one
	// (drawn only when asked for, so that older replays keep their meaning)
	extraGS, nStop := 0, 1
	if rs.P("multistop", 0) == 1 && reverse {
		extraGS = c.Intn(3, "extrags") // 0 none, 1 right after the first took effect, 2 a little later
		nStop = 1 + c.Intn(3, "nstop")
		w.Desc["extra_graceful_stop"] = extraGS
		w.Desc["concurrent_stop_calls"] = nStop
	}
	shutdownDone := false
	var lcs *callerSet
	trigger := k
	if k < 0 {
		trigger = 1 << 30
	}
	initiate := func() {
		if shutdownDone {
			return
		}
		shutdownDone = true
		simrt.Emit(simrt.Event{Kind: EvCheckpoint, S: "shutdown-begin"})
		if reverse {
			simrt.Count(CntFaultGracefulStop, 1)
			simrt.Go("graceful", func() { callGracefulStop(t, 0) })
			// GracefulStop does not return until the server has stopped; once the
			// system is idle it has taken effect
			simrt.AwaitIdle()
			if extraGS > 0 {
				d := time.Duration(0)
				if extraGS == 2 {
					d = nap()
				}
				simrt.Go("graceful2", func() {
					if d > 0 {
						simrt.Sleep(d)
					}
					callGracefulStop(t, 1)
				})
			}
		} else {
			simrt.Count(CntFaultInitiateShutdown, 1)
			t.Handler.InitiateShutdown()
		}
		simrt.Emit(simrt.Event{Kind: EvCheckpoint, S: "shutdown-in-effect"})
	}
	// exactly one of the frame trigger and the fallback below initiates the
	// shutdown and starts the late callers (no scheduling point lies between
	// the test and the assignment)
	claimed := false
	fire := func() {
		if claimed {
			return
		}
		claimed = true
		initiate()
		lcs = w.StartCallers(late)
	}
	w.AtFrame(trigger, "graceful", fire)
	ics := w.StartCallers(inflight)
	if !ics.Wait() {
		simrt.Emit(simrt.Event{Kind: EvCheckpoint, S: "bystanders-stalled", S2: simrt.LiveStacks()})
	}
	points := w.frameCount
	w.frameTriggers = nil
	if k >= 0 {
		// the workload was shorter than k frames: shut down now, with nothing in flight
		fire()
	}
	for i := 0; claimed && lcs == nil && i < 1000; i++ {
		// the frame trigger is still in the middle of initiating the shutdown
		simrt.Sleep(time.Microsecond)
	}
	if lcs != nil && !lcs.Wait() {
		simrt.Emit(simrt.Event{Kind: EvCheckpoint, S: "late-stalled", S2: simrt.LiveStacks()})
	}
	simrt.Emit(simrt.Event{Kind: EvCheckpoint, S: "bystanders-done"})
	w.DrainAndProbe()
	if reverse && k >= 0 {
		// Stop: returns only after every Serve call has returned
		simrt.Count(CntFaultStop, 1)
		callStops(t, nStop)
	}
	simrt.Emit(simrt.Event{Kind: EvCounter, S: "enum.points", A: int64(points)})
	w.FullShutdown()
}

// OracleC10: graceful shutdown refuses new RPCs and lets in-flight ones finish.
func OracleC10(w *World, h *History) {
	var begin, effect, drained, stopInv, stopRet, gsRet int64
	for _, e := range h.Evs {
		switch {
		case e.Kind == EvCheckpoint && e.S == "shutdown-begin":
			begin = e.Seq
		case e.Kind == EvCheckpoint && e.S == "shutdown-in-effect":
			effect = e.Seq
		case e.Kind == EvCheckpoint && e.S == "drained" && drained == 0:
			drained = e.Seq
		case e.Kind == EvCheckpoint && e.S == "stop-invoked" && e.A == 0:
			stopInv = e.Seq
		case e.Kind == EvCheckpoint && e.S == "stop-returned" && e.A == 0:
			stopRet = e.Seq
		case e.Kind == EvTunnel && e.S == "graceful-stop-returned" && e.B == 0:
			gsRet = e.Seq
		}
	}
	if begin == 0 || len(w.Tunnels) == 0 {
		return
	}
	t := w.Tunnels[0]
	reverse := t.RevServer != nil
	hol := h.holWitness
	if hol == "" {
		hol = "no"
	}
	det := func(extra ...string) map[string]string {
		d := map[string]string{"hol": hol, "direction": map[bool]string{true: "reverse", false: "forward"}[reverse]}
		for i := 0; i+1 < len(extra); i += 2 {
			d[extra[i]] = extra[i+1]
		}
		return d
	}
	inflightAtShutdown := 0
	for _, id := range h.RPCIDs {
		r := h.RPCs[id]
		if r.Plan == nil || len(r.Ops) == 0 {
			continue
		}
		term := r.Terminal()
		if r.Plan.Role == "bystander" {
			// in flight at shutdown = its handler had been invoked before shutdown began
			inFlight := len(r.Handlers) > 0 && r.Handlers[0].Start < begin
			if inFlight && (term == nil || term.Ret > effect) {
				inflightAtShutdown++
			}
			if term == nil {
				continue // OracleHungRoles
			}
			ok := term.Res.Err == nil || (term.Op == OpRecv && term.Res.Err == io.EOF)
			switch {
			case inFlight && !ok:
				w.AddViolation("C10", "inflight-outcome-changed", fmt.Sprintf("rpc %d was in flight (handler invoked at #%d) when graceful shutdown began (#%d); it should have completed OK but ended with %v", id, r.Handlers[0].Start, begin, term.Res.Err), det(), term.Ret)
			case !inFlight && !ok && term.Res.Code != codes.Unavailable && !tunnelGoneBefore(h, t, term.Ret):
				w.AddViolation("C10", "inflight-outcome-changed", fmt.Sprintf("rpc %d raced with graceful shutdown; it may complete or be refused with Unavailable, but ended with %v", id, term.Res.Err), det(), term.Ret)
			case ok && shapeServerStreams(r.Plan.Shape):
				got := 0
				for _, o := range r.OpsOf(OpRecv, "cr") {
					if o.OK() {
						got++
					}
				}
				if got != len(r.Plan.RespSizes) {
					w.AddViolation("C10", "inflight-outcome-changed", fmt.Sprintf("rpc %d completed OK with %d of %d response messages", id, got, len(r.Plan.RespSizes)), det(), term.Ret)
				}
			}
			continue
		}
		if r.Plan.Role != "late" {
			continue
		}
		// started after the shutdown had taken effect: must be refused
		if r.Ops[0].Inv < effect || term == nil {
			continue
		}
		ok := term.Res.Err == nil || (term.Op == OpRecv && term.Res.Err == io.EOF)
		if ok || term.Res.Code != codes.Unavailable {
			// the tunnel may already be gone (reverse: graceful stop completed):
			// then the call fails some other way, which is fine as long as it fails
			if !ok && tunnelGoneBefore(h, t, r.Ops[0].Inv) {
				continue
			}
			w.AddViolation("C10", "late-rpc-not-unavailable", fmt.Sprintf("rpc %d was started at #%d, after graceful shutdown had taken effect (#%d), and ended with %v instead of Unavailable", id, r.Ops[0].Inv, effect, term.Res.Err),
				det("got", term.Res.Code.String()), term.Ret)
		}
		if len(r.Handlers) > 0 {
			w.AddViolation("C10", "late-rpc-reached-handler", fmt.Sprintf("rpc %d was started after graceful shutdown had taken effect but its handler was invoked", id), det(), r.Handlers[0].Start)
		}
	}
	if inflightAtShutdown > 0 {
		h.Derived["probe.graceful_with_inflight"]++
	}
	// the tunnel stays up for the in-flight RPCs (forward: it stays up altogether)
	if !reverse {
		for _, e := range h.Tunnel {
			if e.S == "probe" && e.S2 == "drained" && int(e.A) == t.Idx {
				if p := e.P.(*TunnelProbe); p.DoneClosed {
					w.AddViolation("C10", "tunnel-ended-early", fmt.Sprintf("the tunnel is closed at the drain checkpoint (Err=%v) although only graceful shutdown was initiated", p.Err), det(), e.Seq)
				}
			}
		}
	}
	// GracefulStop returns once the in-flight RPCs have finished
	if reverse && drained != 0 {
		if gsRet == 0 || gsRet > drained {
			idle := "idle-tunnel-still-open"
			w.AddViolation("C10", "gracefulstop-no-return", fmt.Sprintf("GracefulStop (begun at #%d) had not returned at final quiescence (#%d) although every in-flight RPC had finished; the peer keeps the now idle tunnel open and nothing closes it", begin, drained),
				det("state", idle), drained)
		}
	}
	_, _ = stopInv, stopRet // every Stop / GracefulStop call is judged by OracleStopCalls
}

// tunnelGoneBefore reports whether the tunnel had ended before seq.
func tunnelGoneBefore(h *History, t *Tunnel, seq int64) bool {
	for _, e := range h.Tunnel {
		if (e.S == "serve-return" || e.S == "rev-close") && int(e.A) == t.Idx && e.Seq < seq {
			return true
		}
	}
	return false
}

// callGracefulStop runs one GracefulStop call and records its interval.
func callGracefulStop(t *Tunnel, idx int) {
	simrt.Emit(simrt.Event{Kind: EvTunnel, S: "graceful-stop-invoked", A: int64(t.Idx), B: int64(idx)})
	t.RevServer.GracefulStop()
	simrt.Emit(simrt.Event{Kind: EvTunnel, S: "graceful-stop-returned", A: int64(t.Idx), B: int64(idx)})
}

// callStops runs n overlapping Stop calls (the first on the calling goroutine)
// and returns when all of them have returned.
func callStops(t *Tunnel, n int) {
	one := func(idx int) {
		simrt.Emit(simrt.Event{Kind: EvCheckpoint, S: "stop-invoked", A: int64(idx)})
		t.RevServer.Stop()
		simrt.Emit(simrt.Event{Kind: EvCheckpoint, S: "stop-returned", A: int64(idx)})
	}
	var dones []chan struct{}
	for i := 1; i < n; i++ {
		i := i
		d := make(chan struct{})
		dones = append(dones, d)
		simrt.Go("stop", func() {
			one(i)
			close(d)
		})
	}
	simrt.Yield(simrt.ClassApp)
	one(0)
	for _, d := range dones {
		simrt.Recv(d)
	}
}

// OracleStopCalls judges every single Stop / GracefulStop call of a run: Stop
// returns only after every Serve call has returned and every handler has ended
// or been cancelled; GracefulStop (unless Stop was called meanwhile) returns
// only after the RPCs in flight when it was called have finished.
func OracleStopCalls(w *World, h *History) {
	type call struct{ inv, ret int64 }
	stops, gss := map[int64]*call{}, map[int64]*call{}
	get := func(m map[int64]*call, k int64) *call {
		if m[k] == nil {
			m[k] = &call{}
		}
		return m[k]
	}
	var firstStopInv int64
	for _, e := range h.Evs {
		switch {
		case e.Kind == EvCheckpoint && e.S == "stop-invoked":
			get(stops, e.A).inv = e.Seq
			if firstStopInv == 0 {
				firstStopInv = e.Seq
			}
		case e.Kind == EvCheckpoint && e.S == "stop-returned":
			get(stops, e.A).ret = e.Seq
		case e.Kind == EvTunnel && e.S == "graceful-stop-invoked":
			get(gss, e.B).inv = e.Seq
		case e.Kind == EvTunnel && e.S == "graceful-stop-returned":
			get(gss, e.B).ret = e.Seq
		}
	}
	hol := h.holWitness
	if hol == "" {
		hol = "no"
	}
	for idx, c := range stops {
		det := map[string]string{"hol": hol, "call": fmt.Sprint(idx), "calls": fmt.Sprint(len(stops))}
		if c.ret == 0 {
			if c.inv != 0 {
				w.AddViolation("C10", "stop-no-return", fmt.Sprintf("Stop call %d invoked at #%d never returned", idx, c.inv), det, c.inv)
			}
			continue
		}
		for _, e := range h.Tunnel {
			if e.S == "serve-return" && e.B != 0 && e.Seq > c.ret {
				w.AddViolation("C10", "stop-returned-early", fmt.Sprintf("Stop call %d of %d returned at #%d but Serve of tunnel %d returned only at #%d", idx, len(stops), c.ret, e.A, e.Seq), det, c.ret)
			}
		}
		for _, id := range h.RPCIDs {
			for _, hr := range h.RPCs[id].Handlers {
				if hr.Start < c.ret && hr.End > c.ret && !hr.CtxDoneAtEnd {
					w.AddViolation("C10", "stop-returned-early", fmt.Sprintf("Stop call %d of %d returned at #%d but the handler of rpc %d was still running with a live context", idx, len(stops), c.ret, id), det, c.ret)
				}
			}
		}
	}
	for idx, c := range gss {
		if c.ret == 0 || c.inv == 0 {
			continue // not returning: judged against the drain checkpoint by OracleC10
		}
		if firstStopInv != 0 && firstStopInv < c.ret {
			continue // Stop took over
		}
		det := map[string]string{"hol": hol, "call": fmt.Sprint(idx), "calls": fmt.Sprint(len(gss))}
		for _, id := range h.RPCIDs {
			for _, hr := range h.RPCs[id].Handlers {
				if hr.Start < c.inv && (hr.End == 0 || hr.End > c.ret) {
					w.AddViolation("C10", "gracefulstop-returned-early", fmt.Sprintf("GracefulStop call %d of %d (invoked at #%d) returned at #%d while the handler of rpc %d, in flight since #%d, was still running", idx, len(gss), c.inv, c.ret, id, hr.Start), det, c.ret)
				}
			}
		}
	}
}
