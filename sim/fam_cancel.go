package sim

import (
	"fmt"
	"google.golang.org/grpc/metadata"
	"io"
	"strings"
	"time"

	"google.golang.org/grpc/codes"
	"google.golang.org/grpc/status"

	"verif/simrt"
)

// Family cancel (C07): one RPC of interest whose context is cancelled (or whose
// deadline falls) at a chosen point, plus bystanders. Param k = the frame
// boundary at which the cancel is injected (-1: baseline), cause 0 = cancel,
// 1 = cancel with all server->client delivery held back afterwards.

func init() {
	register(&Family{
		Name:    "cancel",
		Run:     runCancel,
		Oracles: []func(*World, *History){OracleHung("C07"), OracleC07, OracleBystanders("C07"), OracleC01, OracleC02, OracleLeak},
		Nontrivial: func(w *World, h *History) bool {
			return h.Derived["probe.cancel_injected_in_flight"] > 0
		},
	})
}

// isBystander marks plans that must run to their planned, normal completion.
func bystanderPlan(c *Chooser, id, tunnel int) *RPCPlan {
	p := GenPlan(c, id, GenOpts{MaxMsgs: 4, ByteBudget: 100000})
	p.Tunnel = tunnel
	p.Role = "bystander"
	return p
}

func runCancel(w *World, rs *RunSpec) {
	c := w.C
	cfg := drawTunnelCfg(c, false)
	// revision zero has head-of-line blocking by design; C07 is about the
	// cancel paths, so keep the never-reading phases to flow-controlled tunnels
	describeTunnel(w, cfg)
	t, err := w.OpenTunnel(cfg)
	if err != nil {
		w.Violate("C11", "shape-failed", "tunnel could not be established: "+err.Error(), map[string]string{"topology": topoNames[cfg.Topo], "fc": fcNames[cfg.FC]})
		return
	}
	cause := rs.P("cause", -2)
	k := rs.P("k", -2)
	if cause == -2 {
		cause = c.Intn(3, "ccause") // 2 = deadline in virtual time
	}
	// the RPC of interest: long enough to have phases
	p0 := GenPlan(c, 0, GenOpts{MaxMsgs: 5, ByteBudget: 200000})
	p0.Tunnel = t.Idx
	p0.Role = "interest"
	nap := func() time.Duration { return time.Duration(1+c.Intn(10, "nap")) * time.Millisecond }
	switch c.Intn(5, "iphase") {
	case 0:
	case 1: // handler blocked waiting for its context
		p0.Handler = []Op{{Kind: OpRecv}, {Kind: OpAwaitCtx}, {Kind: OpReturn}}
		if (len(p0.ReqSizes)+len(p0.RespSizes))%2 == 0 {
			// a handler that has not noticed yet that its RPC is over and
			// sends headers: nothing may reach the wire any more
			p0.Handler = []Op{{Kind: OpRecv}, {Kind: OpAwaitCtx}, {Kind: OpSendHeader, MD: metadata.Pairs("late-header", "after-the-end")}, {Kind: OpReturn}}
		}
		p0.HandlerSend = nil
		// if the cancellation never comes (baseline, or the workload is shorter
		// than k frames) a deadline ends this RPC
		p0.Deadline = time.Duration(100+c.Intn(200, "fallbackdl")) * time.Millisecond
		if p0.Shape == ShapeUnary || p0.Shape == ShapeServerStream {
			// fine: one request
		}
	case 2: // handler dawdles before responding
		p0.Handler = append([]Op{{Kind: OpSleep, D: nap()}}, p0.Handler...)
	case 3: // handler dawdles before returning
		at := len(p0.Handler)
		if at > 0 && p0.Handler[at-1].Kind == OpReturn {
			at--
		}
		ops := append([]Op{}, p0.Handler[:at]...)
		ops = append(ops, Op{Kind: OpSleep, D: nap()})
		p0.Handler = append(ops, p0.Handler[at:]...)
	case 4: // caller reads slowly: the handler's sender ends up blocked on the window
		if shapeServerStreams(p0.Shape) && cfg.FC == FCBoth {
			p0.RespSizes = []int{65531, 65531, 20000}
			DefaultScripts(c, p0)
			p0.CallerRecv = append([]Op{{Kind: OpSleep, D: nap()}}, p0.CallerRecv...)
		}
	}
	if cause == 2 {
		p0.Deadline = time.Duration(1+c.Intn(30, "dl")) * time.Millisecond
		if k > 0 {
			p0.Deadline = time.Duration(k) * 300 * time.Microsecond
		}
	}
	// give trailers so that "success with missing trailers" is observable
	if c.Intn(2, "tlr") == 1 {
		md := GenMD(c, 2, false)
		at := len(p0.Handler)
		if at > 0 && p0.Handler[at-1].Kind == OpReturn {
			at--
		}
		ops := append([]Op{}, p0.Handler[:at]...)
		ops = append(ops, Op{Kind: OpSetTrailer, MD: md})
		p0.Handler = append(ops, p0.Handler[at:]...)
		p0.CallerRecv = append(p0.CallerRecv, Op{Kind: OpTrailer})
	}
	plans := []*RPCPlan{p0}
	nb := c.Intn(4, "nbystanders")
	for i := 0; i < nb; i++ {
		plans = append(plans, bystanderPlan(c, 1+i, t.Idx))
	}
	var descs []any
	for _, p := range plans {
		d := planDesc(p)
		d["role"] = p.Role
		descs = append(descs, d)
	}
	w.Desc["rpcs"] = descs
	if k == -2 {
		k = 1 + c.Intn(60, "cancelk")
	}
	w.Desc["cause"] = [...]string{"cancel", "cancel+hold-back", "deadline"}[max(cause, 0)]
	if cause < 0 {
		w.Desc["cause"] = "none (baseline)"
	}
	w.Desc["fault_frame"] = k
	trigger := k
	if cause < 0 || k < 0 || cause == 2 {
		trigger = 1 << 30
	}
	out := outermost(t)
	interestOver := false
	w.AtFrame(trigger, "cancel", func() {
		if p0.Res == nil || p0.Res.CallerCancel == nil || interestOver {
			return
		}
		if cause == 1 && out.Conn != nil && t.Outer == nil {
			// Nothing reaches the caller's endpoint any more. Not done for nested
			// tunnels: there the held-back frames include the outer tunnel's own
			// window updates, so the inner caller's Send ends up blocked inside
			// the carrier's Send - transport back-pressure, which the gRPC stream
			// API gives no way to interrupt and no property promises to.
			out.Conn.HoldDelivery(true)
		}
		simrt.Count(CntFaultCancelRPC, 1)
		evInvoke(0, "f", OpCancel, 0, 0)
		p0.Res.CallerCancel()
		evReturn(0, "f", OpCancel, 0, nil)
	})
	if cause == 2 {
		simrt.Count(CntFaultDeadlineRPC, 1)
	}
	// the RPC of interest has its own caller set so that we can tell when it ended
	ics := w.StartCallers(plans[:1])
	bcs := w.StartCallers(plans[1:])
	if !ics.Wait() {
		simrt.Emit(simrt.Event{Kind: EvCheckpoint, S: "interest-stalled", S2: simrt.LiveStacks(), A: b2i(out.Conn != nil && out.Conn.SendBlockedTowardsServer())})
	}
	interestOver = true
	w.frameTriggers = nil
	simrt.Emit(simrt.Event{Kind: EvCheckpoint, S: "interest-done"})
	if out.Conn != nil {
		out.Conn.HoldDelivery(false)
	}
	if !bcs.Wait() {
		simrt.Emit(simrt.Event{Kind: EvCheckpoint, S: "bystanders-stalled"})
	}
	points := w.frameCount
	w.DrainAndProbe()
	// a fresh RPC still works: late frames for the disposed id had no effect
	fresh := bystanderPlan(c, 200, t.Idx)
	fresh.Role = "fresh"
	fcs := w.StartCallers([]*RPCPlan{fresh})
	fcs.Wait()
	simrt.Emit(simrt.Event{Kind: EvCounter, S: "enum.points", A: int64(points)})
	w.DrainAndProbe2("drained-2")
	w.FullShutdown()
}

// OracleC07: the cancelled RPC ends with exactly one of the two legal outcomes.
func OracleC07(w *World, h *History) {
	r := h.RPCs[0]
	if r == nil || r.Plan == nil || r.Plan.Role != "interest" {
		return
	}
	p := r.Plan
	// when did the cancellation happen?
	var cancelAt int64
	for _, o := range r.Ops {
		if o.Op == OpCancel && o.Returned() {
			cancelAt = o.Ret
			break
		}
	}
	deadline := p.Deadline > 0
	if cancelAt == 0 && !deadline {
		return
	}
	term := r.Terminal()
	if term == nil {
		return // OracleHung reports it
	}
	if cancelAt != 0 && term.Ret > cancelAt {
		h.Derived["probe.cancel_injected_in_flight"]++
	}
	if deadline && term.Res.Code == codes.DeadlineExceeded {
		h.Derived["probe.cancel_injected_in_flight"]++
	}
	cause, _ := w.Desc["cause"].(string)
	det := map[string]string{"cause": cause, "shape": shapeNames[p.Shape]}
	ok := term.Res.Err == nil || (term.Op == OpRecv && term.Res.Err == io.EOF)
	code := term.Res.Code
	// the handler's own result, if it produced one
	var hcode codes.Code = codes.OK
	handlerDone := false
	for _, hr := range r.Handlers {
		if hr.End != 0 {
			handlerDone = true
			hcode = status.Code(hr.Err)
		}
	}
	want := codes.Canceled
	if deadline && cancelAt == 0 {
		want = codes.DeadlineExceeded
	}
	if deadline && cancelAt != 0 && code == codes.DeadlineExceeded {
		want = codes.DeadlineExceeded // both mechanisms were armed; either may win
	}
	switch {
	case ok:
		// normal completion won the race: the handler must have completed OK
		if !handlerDone || hcode != codes.OK {
			w.AddViolation("C07", "mixed-outcome", fmt.Sprintf("rpc 0 ended OK at the caller, but its handler did not complete OK (done=%v code=%v)", handlerDone, hcode), det, term.Ret)
		}
	case term.Ret > cancelAt && cancelAt != 0 && code != want:
		// an error other than Canceled after the cancel: legal only if it is the handler's own status
		if !(handlerDone && code == hcode) && !(term.Op == OpStart || term.Op == OpInvoke) {
			w.AddViolation("C07", "cancel-wrong-code", fmt.Sprintf("rpc 0 was cancelled at #%d; its terminal result is %v (%v), neither %v nor the handler's own status (%v)", cancelAt, code, term.Res.Err, want, hcode), det, term.Ret)
		}
		if term.Op == OpInvoke && code != want && !(handlerDone && code == hcode) {
			w.AddViolation("C07", "cancel-wrong-code", fmt.Sprintf("rpc 0 was cancelled at #%d; Invoke returned %v (%v), neither %v nor the handler's own status (%v)", cancelAt, code, term.Res.Err, want, hcode), det, term.Ret)
		}
	case deadline && cancelAt == 0 && code != want && !(handlerDone && code == hcode):
		w.AddViolation("C07", "cancel-wrong-code", fmt.Sprintf("rpc 0 had a deadline of %v; its terminal result is %v (%v), neither DeadlineExceeded nor the handler's own status (%v)", p.Deadline, code, term.Res.Err, hcode), det, term.Ret)
	}
	// hold-back variant: the caller must not have waited for the peer
	for _, e := range h.Evs {
		if e.Kind == EvCheckpoint && e.S == "interest-stalled" {
			if !interestBlockedOutsideTransport(e.S2) {
				// the only thing the caller still waits for is the carrier's own
				// Send (transport back-pressure), which gRPC gives no way to interrupt
				h.Derived["probe.cancel_caller_blocked_in_transport_send"]++
				continue
			}
			d := map[string]string{"cause": cause, "shape": shapeNames[p.Shape], "hol": holFromStacks(e.S2)}
			w.AddViolation("C07", "cancel-waited-for-peer", "rpc 0 was cancelled but its caller had not completed when the run stalled (nothing runnable, every timer fired)", d, e.Seq)
		}
	}
	// every operation invoked after the cancel returns the cancellation too
	for _, o := range r.Ops {
		if (o.Actor != "cr" && o.Actor != "cs") || !o.Returned() || cancelAt == 0 || o.Inv < cancelAt || o.Inv < term.Ret {
			continue
		}
		if o.Op == OpRecv && o.Res.Err == nil {
			w.AddViolation("C07", "mixed-outcome", fmt.Sprintf("rpc 0: Recv invoked at #%d, after the terminal result (#%d), returned a message", o.Inv, term.Ret), det, o.Ret)
		}
	}
}

// OracleBystanders: RPCs that share the tunnel with a disturbance still end the
// way they would have ended without it, the tunnel stays up, a fresh RPC works.
func OracleBystanders(prop string) func(w *World, h *History) {
	return func(w *World, h *History) {
		hol := h.holWitness
		if hol == "" {
			hol = "no"
		}
		dist := ""
		if ds, ok := w.Desc["disturbers"].([]string); ok {
			dist = strings.Join(ds, "+")
		}
		for _, id := range h.RPCIDs {
			r := h.RPCs[id]
			p := r.Plan
			if p == nil || (p.Role != "bystander" && p.Role != "fresh") {
				continue
			}
			kind := "bystander-outcome-changed"
			if p.Role == "fresh" {
				kind = "tunnel-unusable-afterwards"
			}
			det := map[string]string{"role": p.Role, "hol": hol}
			if dist != "" {
				det["disturbers"] = dist
			}
			term := r.Terminal()
			if term == nil {
				continue // OracleHung
			}
			ok := term.Res.Err == nil || (term.Op == OpRecv && term.Res.Err == io.EOF)
			if !ok {
				w.AddViolation(prop, kind, fmt.Sprintf("rpc %d (%s, %s) should have completed OK but ended with %v", id, p.Role, shapeNames[p.Shape], term.Res.Err), det, term.Ret)
				continue
			}
			// all planned responses received
			got := 0
			for _, o := range r.OpsOf(OpRecv, "cr") {
				if o.OK() {
					got++
				}
			}
			if p.Shape != ShapeUnary && got != len(p.RespSizes) && shapeServerStreams(p.Shape) {
				w.AddViolation(prop, kind, fmt.Sprintf("rpc %d (%s) completed OK with %d of %d response messages", id, p.Role, got, len(p.RespSizes)), det, term.Ret)
			}
		}
		// the tunnel under test is still up at the drain probe
		for _, e := range h.Tunnel {
			if e.S != "probe" || e.S2 != "drained" || int(e.A) != 0 {
				continue
			}
			pr := e.P.(*TunnelProbe)
			if pr.DoneClosed {
				d := map[string]string{"hol": hol}
				if dist != "" {
					d["disturbers"] = dist
				}
				w.AddViolation(prop, "tunnel-ended-by-disturber", fmt.Sprintf("tunnel 0 is closed at the drain checkpoint (Err=%v) although nothing ended it", pr.Err), d, e.Seq)
			}
		}
	}
}

// DrainAndProbe2 is DrainAndProbe with another mark (a second drain in a run).
func (w *World) DrainAndProbe2(mark string) {
	simrt.AwaitStall()
	simrt.Emit(simrt.Event{Kind: EvCheckpoint, S: mark})
	w.ProbeTunnels(mark)
}

// interestBlockedOutsideTransport reports whether a goroutine of the RPC of
// interest's caller is blocked anywhere other than in (or queueing for) the
// carrier stream's Send.
func interestBlockedOutsideTransport(stacks string) bool {
	for _, g := range strings.Split(stacks, "\n\n") {
		if !strings.Contains(g, "runInterestCaller") && !strings.Contains(g, "sim.interestSender") {
			continue
		}
		if strings.Contains(g, "sim.(*Conn).clientSend") || strings.Contains(g, "sim.(*Conn).serverSend") {
			continue // inside the carrier's Send: transport back-pressure
		}
		if strings.Contains(g, "grpctunnel.(*threadSafeOpen") && strings.Contains(g, "simsync.(*Mutex).Lock") {
			continue // queueing for the carrier stream's send lock
		}
		if strings.Contains(g, "simrt.Recv[") && strings.Contains(g, "sim.(*World).RunCaller") && !strings.Contains(g, "sim.(*cstream)") {
			continue // the caller goroutine waiting for its own sender goroutine
		}
		return true
	}
	return false
}

// callerBlockedOutsideCarrier reports whether some caller goroutine in the stack
// dump is blocked anywhere other than inside the carrier's Send.
func callerBlockedOutsideCarrier(stacks string) bool {
	for _, g := range strings.Split(stacks, "\n\n") {
		if !strings.Contains(g, "sim.(*cstream).") && !strings.Contains(g, "ClientConnInterface") && !strings.Contains(g, ".Invoke(") {
			continue
		}
		if !strings.Contains(g, "verif/sim.(*World).RunCaller") && !strings.Contains(g, "sim.(*cstream).exec") {
			continue
		}
		if strings.Contains(g, "sim.(*Conn).clientSend") || strings.Contains(g, "sim.(*Conn).serverSend") {
			continue
		}
		return true
	}
	return false
}
