package sim

import (
	"fmt"

	"verif/simrt"
)

// Family concurrent (C15): the API under concurrent use, run in the -race build
// of the simulator (DESIGN.md 2.8): many goroutines start RPCs, one sender and
// one receiver per stream, Header/Trailer/option targets are read right after
// their completion signal, and Close / Stop / GracefulStop / InitiateShutdown
// and registry queries run concurrently with the traffic.

func init() {
	register(&Family{
		Name:       "concurrent",
		Run:        runConcurrent,
		Oracles:    []func(*World, *History){OracleC01},
		Nontrivial: func(w *World, h *History) bool { return len(h.RPCIDs) >= 2 },
	})
}

func runConcurrent(w *World, rs *RunSpec) {
	c := w.C
	cfg := drawTunnelCfg(c, false)
	cfg.Carrier.LatC2S, cfg.Carrier.LatS2C = 0, 0
	describeTunnel(w, cfg)
	t, err := w.OpenTunnel(cfg)
	if err != nil {
		return
	}
	n := 2 + c.Intn(7, "nconc")
	var plans []*RPCPlan
	for i := 0; i < n; i++ {
		p := GenPlan(c, i, GenOpts{MaxMsgs: 4, ByteBudget: 100000})
		p.Tunnel = t.Idx
		p.OptHeader = c.Intn(2, "oh") == 1
		p.OptTrailer = c.Intn(2, "ot") == 1
		p.OptPeer = c.Intn(3, "op") == 2
		p.OptChannel = c.Intn(3, "oc") == 2
		if c.Intn(2, "tlr") == 1 {
			md := GenMD(c, 2, false)
			at := len(p.Handler)
			if at > 0 && p.Handler[at-1].Kind == OpReturn {
				at--
			}
			ops := append([]Op{}, p.Handler[:at]...)
			ops = append(ops, Op{Kind: OpSetHeader, MD: GenMD(c, 2, false)}, Op{Kind: OpSetTrailer, MD: md})
			p.Handler = append(ops, p.Handler[at:]...)
		}
		if p.Shape != ShapeUnary {
			switch c.Intn(3, "crs") {
			case 0:
				p.CallerRecv = []Op{{Kind: OpHeader}, {Kind: OpRecvAll}, {Kind: OpTrailer}, {Kind: OpReadTargets}}
			case 1:
				p.CallerRecv = []Op{{Kind: OpRecvAll}, {Kind: OpTrailer}, {Kind: OpHeader}, {Kind: OpReadTargets}}
			}
		}
		drawTermination(c, p)
		if t.RevServer != nil && t.Outer == nil && c.Intn(3, "viapool") == 2 {
			p.Via = "pool"
		}
		plans = append(plans, p)
	}
	var descs []any
	for _, p := range plans {
		descs = append(descs, planDesc(p))
	}
	w.Desc["rpcs"] = descs
	// a control goroutine acting concurrently with the traffic
	ctl := c.Intn(7, "ctl")
	delay := c.Intn(40, "ctldelay")
	w.Desc["control"] = [...]string{"none", "channel-close", "stop", "graceful-stop", "initiate-shutdown", "registry-queries", "close-twice"}[ctl]
	simrt.Go("control", func() {
		for i := 0; i < delay; i++ {
			simrt.Yield(simrt.ClassApp)
		}
		switch ctl {
		case 1:
			t.Chan.Close()
		case 2:
			if t.RevServer != nil {
				t.RevServer.Stop()
			} else {
				t.Chan.Close()
			}
		case 3:
			if t.RevServer != nil {
				simrt.Go("graceful", func() { t.RevServer.GracefulStop() })
			} else {
				t.Handler.InitiateShutdown()
			}
		case 4:
			t.Handler.InitiateShutdown()
		case 5:
			for i := 0; i < 5; i++ {
				if t.RevServer != nil {
					_ = t.Handler.AllReverseTunnels()
					_ = t.Handler.AsChannel().Ready()
					_ = t.Handler.KeyAsChannel(nil).Ready()
				}
				_ = t.Chan.Err()
				simrt.Yield(simrt.ClassApp)
			}
		case 6:
			simrt.Go("closer", func() { t.Chan.Close() })
			t.Chan.Close()
		}
	})
	cs := w.StartCallers(plans)
	cs.Wait()
	w.FullShutdown()
	_ = fmt.Sprint
}
