package sim

import (
	"context"
	"fmt"
	"google.golang.org/grpc/metadata"
	"io"
	"time"

	"google.golang.org/grpc/codes"

	"verif/simrt"
)

// Family teardown (C04, C14): a workload with RPCs in assorted phases, and a
// termination cause injected at a frame boundary k. With param k=-1 the run is
// the fault-free baseline that tells the driver how many frames there are; the
// driver then enumerates (cause, k).

const (
	CauseClose = iota
	CauseCancelOpenCtx
	CauseOpenDeadline
	CauseStop
	CauseGracefulThenStop
	CauseBreak
	NumCauses
)

var causeNames = [...]string{"channel-close", "cancel-open-ctx", "open-ctx-deadline", "stop", "graceful-then-stop", "carrier-break"}

func init() {
	register(&Family{
		Name:    "teardown",
		Run:     runTeardown,
		Oracles: []func(*World, *History){OracleHung("C04"), OracleC04, OracleStopCalls, OracleLeak, OracleC01},
		Nontrivial: func(w *World, h *History) bool {
			return h.Derived["probe.tunnel_ended_with_inflight_rpcs"] > 0
		},
	})
}

// phasePlans builds RPCs that sit in distinct phases for a while.
func phasePlans(c *Chooser, n int, tunnel int, fcOn bool) []*RPCPlan {
	var plans []*RPCPlan
	for i := 0; i < n; i++ {
		p := GenPlan(c, i, GenOpts{MaxMsgs: 4, ByteBudget: 150000})
		p.Tunnel = tunnel
		nap := func() time.Duration { return time.Duration(1+c.Intn(20, "nap")) * time.Millisecond }
		switch c.Intn(8, "phase") {
		case 0: // plain
		case 1: // before headers: the handler dawdles before doing anything
			p.Handler = append([]Op{{Kind: OpSleep, D: nap()}}, p.Handler...)
		case 2: // awaiting trailers: everything sent, handler dawdles before returning
			at := len(p.Handler)
			if at > 0 && p.Handler[at-1].Kind == OpReturn {
				at--
			}
			ops := append([]Op{}, p.Handler[:at]...)
			ops = append(ops, Op{Kind: OpSleep, D: nap()})
			p.Handler = append(ops, p.Handler[at:]...)
		case 3: // blocked on a zero window: the caller does not read for a while
			if shapeServerStreams(p.Shape) && fcOn {
				p.RespSizes = []int{65531, 65531, 30000}
				DefaultScripts(c, p)
				p.CallerRecv = append([]Op{{Kind: OpSleep, D: nap()}}, p.CallerRecv...)
			}
		case 4: // handler does not read for a while: the caller's sender blocks on the window
			if shapeClientStreams(p.Shape) && fcOn {
				p.ReqSizes = []int{65531, 65531, 30000}
				DefaultScripts(c, p)
				p.Handler = append([]Op{{Kind: OpSleep, D: nap()}}, p.Handler...)
			}
		case 5: // blocked in Header()
			if p.Shape != ShapeUnary {
				p.CallerRecv = append([]Op{{Kind: OpHeader}}, p.CallerRecv...)
				p.Handler = append([]Op{{Kind: OpSleep, D: nap()}}, p.Handler...)
			}
		case 6: // half-closed early, handler keeps the stream open
			if p.Shape != ShapeUnary {
				p.Handler = append([]Op{{Kind: OpRecvAll}, {Kind: OpSleep, D: nap()}}, p.Handler...)
			}
		case 7: // handler waits for its context to end
			p.Handler = []Op{{Kind: OpRecv}, {Kind: OpAwaitCtx}, {Kind: OpReturn, St: nil}}
			if (len(p.ReqSizes)+len(p.RespSizes))%2 == 0 {
				// ... and then sends headers, not having noticed that the RPC is over
				p.Handler = []Op{{Kind: OpRecv}, {Kind: OpAwaitCtx}, {Kind: OpSendHeader, MD: metadata.Pairs("late-header", "after-the-end")}, {Kind: OpReturn, St: nil}}
			}
			if (len(p.ReqSizes)+len(p.RespSizes))%2 == 1 && p.ID%2 == 0 {
				// ... or carries on for a while although its context has ended:
				// the tunnel's termination (Serve, Stop, the accepting side's
				// call) cancels handlers, it does not wait for them
				p.Handler = []Op{{Kind: OpRecv}, {Kind: OpAwaitCtx}, {Kind: OpPause, N: 940, Insist: true}, {Kind: OpReturn, St: nil}}
				p.stubborn = true
			}
			p.HandlerSend = nil
			p.neverEnds = true
			// without a fault only the caller's deadline ends this RPC
			p.Deadline = time.Duration(30+c.Intn(200, "nedl")) * time.Millisecond
		}
		plans = append(plans, p)
	}
	return plans
}

func runTeardown(w *World, rs *RunSpec) {
	c := w.C
	cfg := drawTunnelCfg(c, false)
	cause := rs.P("cause", -2)
	k := rs.P("k", -2)
	if cause == -2 {
		cause = c.Intn(NumCauses, "cause")
	}
	if cause == CauseOpenDeadline {
		// the deadline is a point in virtual time; give the run some duration
		if k > 0 {
			cfg.OpenDeadline = time.Duration(k) * 500 * time.Microsecond
		} else if k == -2 {
			cfg.OpenDeadline = time.Duration(1+c.Intn(40, "opendl")) * time.Millisecond
		}
	}
	describeTunnel(w, cfg)
	t, err := w.OpenTunnel(cfg)
	if err != nil {
		if cfg.OpenDeadline > 0 {
			return // the tunnel's own deadline beat its establishment
		}
		w.Violate("C11", "shape-failed", "tunnel could not be established in a workable configuration: "+err.Error(),
			map[string]string{"topology": topoNames[cfg.Topo], "fc": fcNames[cfg.FC]})
		return
	}
	n := 1 + c.Intn(5, "nrpc")
	if rs.P("sibling", 0) == 1 && t.Pending != nil && t.Outer == nil && t.RevServer == nil {
		// a second tunnel started from the same pending channel, after the
		// first: the two are independent, ending one is not the other's business
		sctx, scancel := context.WithCancel(w.RootCtx)
		if sib, err := t.Pending.Start(sctx); err == nil {
			t.Sibling, t.SiblingCancel = sib, scancel
			w.Desc["sibling_channel"] = true
		} else {
			scancel()
		}
	}
	plans := phasePlans(c, n, t.Idx, cfg.FC == FCBoth)
	var descs []any
	for _, p := range plans {
		descs = append(descs, planDesc(p))
	}
	fromHandler := rs.P("fromhandler", 0) == 1 && t.RevServer != nil && cause == CauseStop
	if fromHandler {
		// Stop is called by the handler of the first RPC instead of by the director
		plans[0].Handler = []Op{{Kind: OpRecv}, {Kind: OpStopServer}, {Kind: OpReturn}}
		plans[0].HandlerSend = nil
		descs[0] = planDesc(plans[0])
		w.Desc["stop_called_from_handler"] = true
	}
	w.Desc["rpcs"] = descs
	if k == -2 {
		k = 1 + c.Intn(80, "faultk")
	}
	w.Desc["cause"] = "none (baseline)"
	if cause >= 0 {
		w.Desc["cause"] = causeNames[cause]
		w.Desc["fault_frame"] = k
	}
	nStop := 1
	if rs.P("multistop", 0) == 1 && t.RevServer != nil && (cause == CauseStop || cause == CauseGracefulThenStop) {
		nStop = 1 + c.Intn(3, "nstop")
		w.Desc["concurrent_stop_calls"] = nStop
	}
	inject := func() {
		out := outermost(t)
		switch cause {
		case CauseClose:
			simrt.Count(CntFaultCloseChannel, 1)
			t.Chan.Close()
		case CauseCancelOpenCtx:
			simrt.Count(CntFaultCancelTunnelCtx, 1)
			t.OpenCancel()
		case CauseStop:
			simrt.Count(CntFaultStop, 1)
			if t.RevServer != nil {
				callStops(t, nStop)
			} else {
				out.Conn.Break("server-stop")
			}
		case CauseGracefulThenStop:
			simrt.Count(CntFaultGracefulStop, 1)
			if t.RevServer != nil {
				done := make(chan struct{})
				simrt.Go("graceful", func() {
					callGracefulStop(t, 0)
					close(done)
				})
				simrt.Yield(simrt.ClassApp)
				callStops(t, nStop)
				simrt.Recv(done)
			} else {
				t.Handler.InitiateShutdown()
				simrt.Yield(simrt.ClassApp)
				out.Conn.Break("server-stop")
			}
		case CauseBreak:
			simrt.Count(CntFaultBreak, 1)
			out.Conn.Break("fault")
		}
		simrt.Emit(simrt.Event{Kind: EvTunnel, S: "fault-returned", A: int64(t.Idx), S2: causeNames[cause]})
	}
	// The fault goroutine exists in the baseline too (its gate never opens), so
	// that the schedule up to the fault point is the baseline's.
	trigger := k
	if cause < 0 || k < 0 || cause == CauseOpenDeadline || fromHandler {
		trigger = 1 << 30
	}
	w.AtFrame(trigger, "teardown", inject)
	if cause == CauseOpenDeadline {
		simrt.Count(CntFaultCancelTunnelCtx, 1)
	}

	cs := w.StartCallers(plans)
	if !cs.Wait() {
		// stalled with callers still blocked
		simrt.Emit(simrt.Event{Kind: EvCheckpoint, S: "callers-stalled"})
	}
	points := w.frameCount
	w.frameTriggers = nil // the fault belongs to the workload phase only
	w.DrainAndProbe()
	w.OpenGate(940) // handlers that outlived their cancellation may finish now
	if t.Sibling != nil && cause == CauseClose {
		select {
		case <-t.Sibling.Done():
			simrt.Emit(simrt.Event{Kind: EvCheckpoint, S: "sibling-ended-with-its-brother", S2: errString(t.Sibling.Err())})
		default:
		}
	}
	fired := false
	for _, e := range simrt.EventsSoFar() {
		if e.Kind == EvFault && e.S == "teardown" {
			fired = true
		}
	}
	if cause == CauseOpenDeadline && t.OpenCtx.Err() != nil {
		fired = true
		simrt.Emit(simrt.Event{Kind: EvFault, S: "teardown-deadline"})
	}
	// RPCs started on the ended tunnel fail at once
	if fired {
		var late []*RPCPlan
		for i := 0; i < 2; i++ {
			p := GenPlan(c, 100+i, GenOpts{MaxMsgs: 2, SmallOnly: true, NoMD: true})
			p.Tunnel = t.Idx
			p.late = true
			late = append(late, p)
		}
		lcs := w.StartCallers(late)
		if !lcs.Wait() {
			simrt.Emit(simrt.Event{Kind: EvCheckpoint, S: "late-callers-stalled"})
		}
	}
	// A reconnect loop that has not heard of the Stop: Serve on the stopped
	// server is refused, and whatever it opened on the way is released again.
	if fired && t.RevServer != nil && (cause == CauseStop || cause == CauseGracefulThenStop) {
		lateServe(w, t)
	}
	simrt.Emit(simrt.Event{Kind: EvCounter, S: "enum.points", A: int64(points)})
	w.FullShutdown()
}

// lateServe calls Serve on a server that has been stopped and records what is
// left behind once the run has stalled again.
func lateServe(w *World, t *Tunnel) {
	simrt.AwaitStall()
	before := simrt.LiveNonDaemon()
	ctx, cancel := context.WithCancel(w.RootCtx)
	defer cancel()
	done := make(chan struct{})
	var started bool
	var err error
	simrt.Go("late-serve", func() {
		started, err = t.RevServer.Serve(ctx)
		simrt.Close(done)
	})
	simrt.AwaitStall()
	returned := false
	select {
	case <-done:
		returned = true
	default:
	}
	after := simrt.LiveNonDaemon()
	stacks := ""
	if after > before || !returned {
		stacks = simrt.LiveStacks()
	}
	simrt.Emit(simrt.Event{Kind: EvCheckpoint, S: "late-serve", A: int64(before), B: int64(after), C: b2i(returned), D: b2i(started), S2: errString(err), P: stacks})
}

// oracleLateServe (evaluated by OracleC04): Serve after Stop returns without
// having started, and leaves nothing running.
func oracleLateServe(w *World, h *History, det map[string]string) {
	for _, e := range h.Evs {
		if e.Kind != EvCheckpoint || e.S != "late-serve" {
			continue
		}
		h.Derived["probe.serve_after_stop"]++
		stacks, _ := e.P.(string)
		if e.C == 0 {
			w.AddViolation("C10", "serve-after-stop-hangs", "Serve on a stopped reverse tunnel server had not returned when the run stalled\n"+trim(stacks, 3000), det, e.Seq)
			continue
		}
		if e.D != 0 || e.S2 == "" {
			w.AddViolation("C10", "serve-after-stop-accepted", fmt.Sprintf("Serve on a stopped reverse tunnel server returned started=%v err=%q", e.D != 0, e.S2), det, e.Seq)
		}
		if e.B > e.A {
			w.AddViolation("C14", "refused-serve-leaves-goroutines", fmt.Sprintf("Serve on a stopped reverse tunnel server was refused (%s) but %d more goroutine(s) are alive at the next stall than before the call; what it opened was not released\n%s", e.S2, e.B-e.A, trim(stacks, 3000)), det, e.Seq)
		}
	}
}

// OracleC04: termination reaches both ends, ends every RPC, nothing hangs.
// oracleSibling: ending a tunnel does not end a tunnel started from the same
// pending channel (evaluated by OracleC04).
func oracleSibling(w *World, h *History, det map[string]string) {
	for _, e := range h.Evs {
		if e.Kind == EvCheckpoint && e.S == "sibling-ended-with-its-brother" {
			w.AddViolation("C04", "sibling-tunnel-ended", "a second channel started from the same pending channel is done ("+e.S2+") after the first one was ended; nothing ended it", det, e.Seq)
		}
	}
}

func OracleC04(w *World, h *History) {
	var fault *simrtEvent
	for i := range h.Faults {
		if h.Faults[i].S == "teardown" || h.Faults[i].S == "teardown-deadline" {
			e := h.Faults[i]
			fault = &simrtEvent{Seq: e.Seq}
		}
	}
	cause, _ := w.Desc["cause"].(string)
	if fault == nil {
		return // baseline, or the workload finished before the fault point
	}
	if len(w.Tunnels) == 0 {
		return
	}
	t := w.Tunnels[0] // the tunnel under test (an outer tunnel, if any, comes after it)
	inflight := 0
	for _, id := range h.RPCIDs {
		r := h.RPCs[id]
		if r.Plan == nil || r.Plan.late || fault == nil {
			continue
		}
		term := r.Terminal()
		if term == nil || term.Ret > fault.Seq {
			if len(r.Ops) > 0 && r.Ops[0].Inv < fault.Seq {
				inflight++
			}
		}
	}
	if inflight > 0 {
		h.Derived["probe.tunnel_ended_with_inflight_rpcs"]++
	}
	hol := h.holWitness
	if hol == "" {
		hol = "no"
	}
	det := map[string]string{"cause": cause, "hol": hol}
	oracleSibling(w, h, det)
	oracleLateServe(w, h, det)
	dd := func(extra ...string) map[string]string {
		d := map[string]string{}
		for k, v := range det {
			d[k] = v
		}
		for i := 0; i+1 < len(extra); i += 2 {
			d[extra[i]] = extra[i+1]
		}
		return d
	}
	// the tunnel as seen at the drain probe
	for _, e := range h.Tunnel {
		if e.S != "probe" || e.S2 != "drained" || int(e.A) != t.Idx {
			continue
		}
		p := e.P.(*TunnelProbe)
		if !p.DoneClosed {
			w.AddViolation("C04", "done-not-closed", fmt.Sprintf("tunnel %d ended by %s but Done() of its channel is still open at final quiescence", t.Idx, cause), dd(), e.Seq)
		}
		clean := cause == causeNames[CauseClose] || ((cause == causeNames[CauseStop] || cause == causeNames[CauseGracefulThenStop]) && t.RevServer != nil)
		if clean && p.Err != nil && p.DoneClosed {
			w.AddViolation("C04", "err-wrong", fmt.Sprintf("tunnel %d was closed cleanly (%s) but Err() = %v", t.Idx, cause, p.Err), dd("want", "nil"), e.Seq)
		}
		if !clean && p.Err == nil && p.DoneClosed {
			w.AddViolation("C04", "err-wrong", fmt.Sprintf("tunnel %d ended abnormally (%s) but Err() = nil", t.Idx, cause), dd("want", "non-nil"), e.Seq)
		}
		if t.RevServer != nil && !p.ServeReturned {
			w.AddViolation("C04", "serve-not-returned", fmt.Sprintf("tunnel %d ended by %s but Serve has not returned at final quiescence", t.Idx, cause), dd(), e.Seq)
		}
	}
	// the accepting side's service call returned
	if c := outermost(t).Conn; c != nil {
		returned := false
		for _, e := range h.ConnEnds[c.ID] {
			if e.S == "server-return" || e.S == "server-write-status" {
				returned = true
			}
		}
		if !returned {
			w.AddViolation("C04", "serve-not-returned", fmt.Sprintf("tunnel ended by %s but the accepting side's tunnel handler has not returned at final quiescence", cause), dd("side", "accepting"), 0)
		}
	}
	// in-flight RPCs end non-OK unless their handler had completed normally
	for _, id := range h.RPCIDs {
		r := h.RPCs[id]
		if r.Plan == nil {
			continue
		}
		term := r.Terminal()
		if r.Plan.late {
			if term == nil {
				continue // reported by OracleHung
			}
			if term.Res.Err == nil || (term.Op == OpRecv && term.Res.Err == io.EOF) {
				w.AddViolation("C04", "late-rpc-ok", fmt.Sprintf("rpc %d started after the tunnel had ended (%s) completed OK", id, cause), dd(), term.Ret)
			} else if term.TRet != r.Ops[0].TInv {
				w.AddViolation("C04", "late-rpc-slow", fmt.Sprintf("rpc %d started after the tunnel had ended (%s) failed only after %v of virtual time", id, cause, term.TRet-r.Ops[0].TInv), dd(), term.Ret)
			}
			continue
		}
		if term == nil {
			continue
		}
		ok := term.Res.Err == nil || (term.Op == OpRecv && term.Res.Err == io.EOF)
		if ok {
			handlerOK := false
			for _, hr := range r.Handlers {
				if hr.End != 0 && hr.Err == nil {
					handlerOK = true
				}
			}
			if !handlerOK {
				w.AddViolation("C04", "inflight-ended-ok", fmt.Sprintf("rpc %d ended OK at the caller although its handler never completed normally (tunnel ended by %s)", id, cause), dd("shape", shapeNames[r.Plan.Shape]), term.Ret)
			}
		}
	}
	_ = codes.OK
}

type simrtEvent struct{ Seq int64 }
