package sim

import (
	"errors"
	"fmt"
	"io"
	"runtime"

	"google.golang.org/grpc/metadata"
	"google.golang.org/protobuf/proto"

	"github.com/jhump/grpctunnel/tunnelpb"

	"verif/simrt"
)

// Family rawfuzz (C09): conversations generated from the protocol grammar with
// deviations, in both roles.

func init() {
	register(&Family{
		Name:       "rawfuzz",
		Run:        runRawFuzz,
		Oracles:    []func(*World, *History){OracleC09, OracleLeak},
		Nontrivial: func(w *World, h *History) bool { return h.Derived["probe.raw_deviations"] > 0 },
	})
}

type fuzzCase struct {
	role        int // 0 raw client, 1 raw server
	frames      []*tunnelpb.ClientToServer
	devs        []string
	modelFatal  int // index of the first frame the documented rules make tunnel-fatal (-1: none)
	rc          *RawClient
	probeID     int64
	probeOK     bool
	probeClosed bool
	maxQueued   int
	done        bool
	sentAll     bool
	// role 1
	rs           *RawServer
	srvFatal     bool
	srvDevs      []string
	chanErrAtEnd error
	chanDone     bool
	// bytes the process allocated during the run (runtime TotalAlloc delta)
	// and whether an envelope declared far more than was ever delivered
	alloc0, allocDelta uint64
	hugeDeclared       int
	tinyWindows        int // streams whose handler cannot send its response for lack of window
}

var fuzzMethods = []string{"/sim.Test/Unary", "/sim.Test/ClientStream", "/sim.Test/ServerStream", "/sim.Test/Bidi", "sim.Test/Unary"}
var badMethods = []string{"", "x", "/", "a/", "/a", "//", "/nosuch.Svc/M", "/sim.Test/Nope", "sim.Test"}

func runRawFuzz(w *World, rs *RunSpec) {
	c := w.C
	role := rs.P("role", -1)
	if role < 0 {
		role = c.Intn(3, "fzrole") % 2 // client twice as often
	}
	fc := &fuzzCase{role: role, modelFatal: -1}
	w.fuzz = fc
	var ms runtime.MemStats
	runtime.ReadMemStats(&ms)
	fc.alloc0 = ms.TotalAlloc
	defer func() {
		runtime.ReadMemStats(&ms)
		fc.allocDelta = ms.TotalAlloc - fc.alloc0
	}()
	cfg := RawCfg{Reverse: c.Intn(2, "rawrev") == 1, Negotiate: c.Intn(4, "rawneg") != 0, DisableFC: c.Intn(6, "rawdisfc") == 5}
	cfg.Carrier = GenCarrier(c)
	cfg.Carrier.LatC2S, cfg.Carrier.LatS2C = 0, 0
	w.Desc["role"] = [...]string{"raw-client", "raw-server"}[role]
	w.Desc["raw"] = fmt.Sprintf("reverse=%v negotiate=%v real-end-disables-fc=%v", cfg.Reverse, cfg.Negotiate, cfg.DisableFC)
	w.Desc["carrier"] = cfg.Carrier.String()
	rev := tunnelpb.ProtocolRevision_REVISION_ZERO
	if cfg.Negotiate && !cfg.DisableFC {
		rev = tunnelpb.ProtocolRevision_REVISION_ONE
	}
	if role == 0 {
		genClientConversation(c, w, fc, rev, rs)
		w.Desc["deviations"] = fc.devs
		w.Desc["n_frames"] = len(fc.frames)
		var fdesc []string
		for i, f := range fc.frames {
			if i < 60 {
				fdesc = append(fdesc, summarize(&Conn{}, 0, f).String())
			}
		}
		w.Desc["frames"] = fdesc
		script := func(rc *RawClient) {
			fc.rc = rc
			if cfg.Negotiate {
				rc.WaitFor(rc.HaveSettings)
			}
			simrt.Count(CntFaultPeerMisbehave, int64(len(fc.devs)))
			for _, f := range fc.frames {
				rc.Send(proto.Clone(f).(*tunnelpb.ClientToServer))
				if rc.Ended {
					break
				}
			}
			fc.sentAll = true
			// a probe stream at the very end: is the tunnel still serving?
			if !rc.Ended {
				p := rawPlan(w, 60, ShapeUnary)
				rc.Send(FNew(fc.probeID, "/sim.Test/Unary", 60, rev, 65536, nil))
				rc.SendMessage(fc.probeID, RequestBytes(60, 0, p.ReqSizes[0]), 0)
				rc.Send(FHalf(fc.probeID))
				rc.WaitFor(func() bool { ok, _, _ := rc.Closed(fc.probeID); return ok })
			}
			var code int32
			fc.probeClosed, code, _ = rc.Closed(fc.probeID)
			fc.probeOK = fc.probeClosed && code == 0
			// everything the server holds for the streams we abused
			for rpc := 0; rpc < 8; rpc++ {
				if vs := w.vstreamOf(rpc); vs != nil {
					if q := vs.QueuedBytes(); q > fc.maxQueued {
						fc.maxQueued = q
					}
				}
			}
			fc.done = true
			rc.Hangup()
		}
		w.OpenRawClient(cfg, script)
		w.DrainAndProbe()
		w.FullShutdown()
		return
	}
	// role 1: raw server, real client with scripted callers
	ncalls := 1 + c.Intn(4, "fzcalls")
	var plans []*RPCPlan
	for i := 0; i < ncalls; i++ {
		p := GenPlan(c, i, GenOpts{MaxMsgs: 2, SmallOnly: true, NoMD: true})
		p.Role = "raw"
		plans = append(plans, p)
	}
	// per incoming stream: a response script with deviations, pre-drawn
	type respPlan struct {
		ops []string
	}
	resp := make([][]string, 8)
	devPool := []string{"dup-headers", "msg-before-headers", "unknown-id-low", "unknown-id-high", "frame-after-close", "oversize-chunk", "size-too-big", "size-too-small",
		"empty-frame", "absurd-window-update", "zero-window-update", "settings-mid-stream", "close-twice", "no-close", "more-without-envelope", "settings-on-stream"}
	ndev := c.Intn(4, "fzndev")
	for i := 0; i < ndev; i++ {
		d := devPool[c.Intn(len(devPool), "fzdev")]
		at := c.Intn(len(resp), "fzdevat")
		resp[at] = append(resp[at], d)
		fc.srvDevs = append(fc.srvDevs, fmt.Sprintf("%s@stream#%d", d, at))
	}
	w.Desc["deviations"] = fc.srvDevs
	script := func(rsv *RawServer) {
		fc.rs = rsv
		if cfg.Negotiate {
			rsv.Send(SSettings(-1, 65536, tunnelpb.ProtocolRevision_REVISION_ZERO, tunnelpb.ProtocolRevision_REVISION_ONE))
		}
		simrt.Count(CntFaultPeerMisbehave, int64(ndev))
		served := map[int64]bool{}
		n := 0
		for !rsv.Ended {
			rsv.WaitNew(func() bool {
				for _, ns := range rsv.NewStreams() {
					if !served[ns.StreamId] && rsv.HalfClosed(ns.StreamId) {
						return true
					}
				}
				return false
			})
			for _, ns := range rsv.NewStreams() {
				sid := ns.StreamId
				if served[sid] || !rsv.HalfClosed(sid) {
					continue
				}
				served[sid] = true
				devs := resp[n%len(resp)]
				n++
				has := func(d string) bool {
					for _, x := range devs {
						if x == d {
							return true
						}
					}
					return false
				}
				rpc := 0
				nsf := ns.Frame.(*tunnelpb.ClientToServer_NewStream).NewStream
				if v := nsf.RequestHeaders.GetMd()["sim-rpc"]; v != nil && len(v.Val) > 0 {
					fmt.Sscanf(v.Val[0], "%d", &rpc)
				}
				pl := w.Plans[rpc]
				body := ResponseBytes(rpc, 0, pl.respSize(0))
				if has("unknown-id-low") {
					rsv.Send(SMsg(sid-1000, 3, []byte{1, 2, 3}))
				}
				if has("unknown-id-high") {
					fc.srvFatal = true
					rsv.Send(SMsg(sid+100000, 3, []byte{1, 2, 3}))
				}
				if has("msg-before-headers") {
					rsv.Send(SMsg(sid, uint32(len(body)), body))
				}
				if has("settings-on-stream") {
					rsv.Send(SSettings(sid, 65536, tunnelpb.ProtocolRevision_REVISION_ONE))
				}
				rsv.Send(SHeaders(sid, metadata.Pairs("h", "1")))
				if has("dup-headers") {
					rsv.Send(SHeaders(sid, metadata.Pairs("h", "2")))
				}
				if has("settings-mid-stream") {
					rsv.Send(SSettings(-1, 1, tunnelpb.ProtocolRevision_REVISION_ZERO))
				}
				if has("more-without-envelope") {
					rsv.Send(SMore(sid, []byte{9, 9}))
				}
				if has("empty-frame") {
					rsv.Send(SEmpty(sid))
				}
				if has("absurd-window-update") {
					rsv.Send(SWin(sid, 0xFFFFFFFF))
					rsv.Send(SWin(sid, 0xFFFFFFFF))
				}
				if has("zero-window-update") {
					rsv.Send(SWin(sid, 0))
					rsv.Send(SWin(sid, 1)) // (and a tiny one: on a stream without flow control it means nothing)
				}
				switch {
				case has("oversize-chunk"):
					big := validMessageOfSize(70000)
					rsv.Send(SMsg(sid, uint32(len(big)), big))
				case has("size-too-big"):
					// slightly too big, or a declared size far beyond anything delivered
					extra := 5
					if (len(body)+int(sid))%2 == 1 {
						extra = 1 << 27
						fc.hugeDeclared = extra
					}
					rsv.Send(SMsg(sid, uint32(len(body)+extra), body))
				case has("size-too-small"):
					if len(body) > 1 {
						rsv.Send(SMsg(sid, uint32(len(body)-1), body))
					} else {
						rsv.Send(SMsg(sid, uint32(len(body)), body))
					}
				default:
					for i := 0; i < len(pl.RespSizes); i++ {
						rsv.SendMessage(sid, ResponseBytes(rpc, i, pl.respSize(i)), 0)
					}
				}
				if !has("no-close") {
					rsv.Send(SClose(sid, 0, ""))
				}
				if has("close-twice") {
					rsv.Send(SClose(sid, 13, "again"))
				}
				if has("frame-after-close") {
					rsv.Send(SMsg(sid, 3, []byte{1, 2, 3}))
					rsv.Send(SHeaders(sid, nil))
				}
			}
		}
	}
	_, t, err := w.OpenRawServer(cfg, script)
	if err != nil {
		return
	}
	if cfg.Reverse {
		simrt.AwaitStall()
		if len(w.RevChans) == 0 {
			return
		}
		t.Chan = w.RevChans[0]
	}
	for _, p := range plans {
		p.Tunnel = t.Idx
		// a caller whose stream is never closed by the peer must not wait forever in this harness
		p.Deadline = 0
	}
	cs := w.StartCallers(plans)
	if !cs.Wait() {
		// callers waiting for a close frame that never comes ("no-close"): hang up
		simrt.Emit(simrt.Event{Kind: EvCheckpoint, S: "fuzz-callers-stalled"})
	}
	// the raw server hangs up: every caller must now end
	simrt.Atomically(func() {
		select {
		case <-t.Chan.Done():
			fc.chanDone = true
		default:
		}
		fc.chanErrAtEnd = t.Chan.Err()
	})
	fc.done = true
	t.OpenCancel()
	if t.Conn != nil {
		t.Conn.Break("raw server hangs up")
	}
	cs.Wait()
	w.DrainAndProbe()
	w.FullShutdown()
}

// genClientConversation draws valid streams, interleaves them, applies deviations
// and runs the documented id rules over the result to classify it.
func genClientConversation(c *Chooser, w *World, fc *fuzzCase, rev tunnelpb.ProtocolRevision, rs *RunSpec) {
	nstreams := 1 + c.Intn(4, "fzstreams")
	var per [][]*tunnelpb.ClientToServer
	id := int64(c.Intn(3, "fzid0"))
	var ids []int64
	for s := 0; s < nstreams; s++ {
		shape := c.Intn(4, "fzshape")
		p := rawPlan(w, s, shape)
		nmsg := 1
		if shapeClientStreams(shape) {
			nmsg = c.Intn(4, "fznmsg")
		}
		p.ReqSizes = make([]int, nmsg)
		var fr []*tunnelpb.ClientToServer
		// the window the raw client announces for the responses: now and then so
		// small that the handler is blocked in its send when the stream's
		// further frames (cancel, violations) arrive; the raw client never
		// grants more
		win := uint32(65536)
		if rev == tunnelpb.ProtocolRevision_REVISION_ONE {
			win = Pick(c, "fzwin", uint32(65536), uint32(65536), uint32(65536), uint32(65536), uint32(65536), uint32(4), uint32(1), uint32(0))
		}
		if win < 65536 {
			fc.tinyWindows++
		}
		fr = append(fr, FNew(id, shapeMethods[shape], s, rev, win, nil))
		for m := 0; m < nmsg; m++ {
			p.ReqSizes[m] = Pick(c, "fzmsglen", 0, 3, 50, 20000)
			b := RequestBytes(s, m, p.ReqSizes[m])
			chunk := Pick(c, "fzchunk", 16384, 16384, 5000)
			first := len(b)
			if first > chunk {
				first = chunk
			}
			fr = append(fr, FMsg(id, uint32(len(b)), b[:first]))
			for off := first; off < len(b); off += chunk {
				end := off + chunk
				if end > len(b) {
					end = len(b)
				}
				fr = append(fr, FMore(id, b[off:end]))
			}
		}
		if c.Intn(8, "fzend") == 7 || (win < 65536 && c.Intn(2, "fzendtiny") == 1) {
			fr = append(fr, FCancelFrame(id))
		} else {
			fr = append(fr, FHalf(id))
		}
		per = append(per, fr)
		ids = append(ids, id)
		id += 1 + int64(c.Intn(3, "fzidstep"))
	}
	// interleave, keeping new_stream frames in id order (a conforming client's wire order)
	var frames []*tunnelpb.ClientToServer
	pos := make([]int, len(per))
	opened := 0
	for {
		var cand []int
		for s := range per {
			if pos[s] < len(per[s]) && (pos[s] > 0 || s == opened) {
				cand = append(cand, s)
			}
		}
		if len(cand) == 0 {
			break
		}
		s := cand[c.Intn(len(cand), "fzmix")]
		if pos[s] == 0 {
			opened++
		}
		frames = append(frames, per[s][pos[s]])
		pos[s]++
	}
	// deviations
	ndev := c.Intn(4, "fzndev")
	if v := rs.P("ndev", -1); v >= 0 {
		ndev = v
	}
	for d := 0; d < ndev && len(frames) > 0; d++ {
		i := c.Intn(len(frames), "fzat")
		f := proto.Clone(frames[i]).(*tunnelpb.ClientToServer)
		kind := c.Intn(14, "fzdev")
		if v := rs.P("dev", -1); v >= 0 {
			kind = v
		}
		name := ""
		switch kind {
		case 0:
			name = "drop"
			frames = append(frames[:i], frames[i+1:]...)
		case 1:
			name = "duplicate"
			frames = append(frames[:i+1], append([]*tunnelpb.ClientToServer{f}, frames[i+1:]...)...)
		case 2:
			name = "swap"
			if i+1 < len(frames) {
				frames[i], frames[i+1] = frames[i+1], frames[i]
			}
		case 3:
			name = "id->unknown-high"
			f.StreamId = id + 1000 + int64(c.Intn(1000, "fzhi"))
			frames[i] = f
		case 4:
			name = "id->negative"
			f.StreamId = -2 - int64(c.Intn(5, "fzneg"))
			frames[i] = f
		case 5:
			name = "id->other-stream"
			f.StreamId = ids[c.Intn(len(ids), "fzother")]
			frames[i] = f
		case 6:
			name = "wrong-size"
			if m, ok := f.Frame.(*tunnelpb.ClientToServer_RequestMessage); ok {
				delta := Pick(c, "fzsz", -1, 1, 100000, -int(m.RequestMessage.Size), 1<<27, 1<<28)
				if delta >= 1<<27 {
					fc.hugeDeclared = delta
				}
				m.RequestMessage.Size = uint32(int(m.RequestMessage.Size) + delta)
			} else {
				f.Frame = &tunnelpb.ClientToServer_RequestMessage{RequestMessage: &tunnelpb.MessageData{Size: 2, Data: []byte{1, 2, 3, 4}}}
			}
			frames[i] = f
		case 7:
			name = "oversize-chunk"
			big := validMessageOfSize(Pick(c, "fzbig", 16385, 40000, 70000, 200000))
			f.Frame = &tunnelpb.ClientToServer_RequestMessage{RequestMessage: &tunnelpb.MessageData{Size: uint32(len(big)), Data: big}}
			frames[i] = f
		case 8:
			name = "bad-method"
			if ns, ok := f.Frame.(*tunnelpb.ClientToServer_NewStream); ok {
				ns.NewStream.MethodName = badMethods[c.Intn(len(badMethods), "fzbadm")]
			} else {
				f.Frame = &tunnelpb.ClientToServer_MoreRequestData{MoreRequestData: []byte{1}}
				name = "continuation-without-envelope"
			}
			frames[i] = f
		case 9:
			name = "bad-revision"
			if ns, ok := f.Frame.(*tunnelpb.ClientToServer_NewStream); ok {
				ns.NewStream.ProtocolRevision = tunnelpb.ProtocolRevision(Pick(c, "fzrev", 2, 7, -1, 1000))
			} else {
				f.Frame = nil
				name = "empty-frame"
			}
			frames[i] = f
		case 10:
			name = "absurd-window"
			if ns, ok := f.Frame.(*tunnelpb.ClientToServer_NewStream); ok {
				ns.NewStream.InitialWindowSize = Pick(c, "fzwin", uint32(0), uint32(1), uint32(0xFFFFFFFF))
			} else {
				f.Frame = &tunnelpb.ClientToServer_WindowUpdate{WindowUpdate: Pick(c, "fzwu", uint32(0), uint32(0xFFFFFFFF), uint32(0x80000000), uint32(1), uint32(2))}
			}
			frames[i] = f
		case 11:
			name = "extra-half-close"
			frames = append(frames[:i+1], append([]*tunnelpb.ClientToServer{FHalf(f.StreamId)}, frames[i+1:]...)...)
		case 12:
			name = "extra-cancel"
			frames = append(frames[:i+1], append([]*tunnelpb.ClientToServer{FCancelFrame(f.StreamId)}, frames[i+1:]...)...)
		case 13:
			name = "window-update-burst"
			frames = append(frames[:i+1], append([]*tunnelpb.ClientToServer{FWin(f.StreamId, 0xFFFFFFFF), FWin(f.StreamId, 0xFFFFFFFF), FWin(f.StreamId, 1)}, frames[i+1:]...)...)
		}
		fc.devs = append(fc.devs, fmt.Sprintf("%s@%d", name, i))
	}
	fc.frames = frames
	// the documented id rules, applied to what is actually sent
	lastSeen := int64(-1)
	known := map[int64]bool{}
	for i, f := range frames {
		if _, ok := f.Frame.(*tunnelpb.ClientToServer_NewStream); ok {
			if known[f.StreamId] || f.StreamId <= lastSeen {
				fc.modelFatal = i
				break
			}
			known[f.StreamId] = true
			lastSeen = f.StreamId
			continue
		}
		if !known[f.StreamId] && f.StreamId > lastSeen {
			fc.modelFatal = i
			break
		}
	}
	fc.probeID = lastSeen + 50
	if id+50 > fc.probeID {
		fc.probeID = id + 5000
	}
}

// OracleC09: no peer input crashes, wedges or bloats the endpoint; the outcome
// class is the documented one.
func OracleC09(w *World, h *History) {
	fc := w.fuzz
	if fc == nil || !fc.done {
		return
	}
	if len(fc.devs)+len(fc.srvDevs) > 0 {
		h.Derived["probe.raw_deviations"] += int64(len(fc.devs) + len(fc.srvDevs))
	}
	det := map[string]string{"role": fmt.Sprint(w.Desc["role"])}
	if len(w.Tunnels) == 0 {
		return
	}
	t := w.Tunnels[0]
	var drained int64
	for _, e := range h.Evs {
		if e.Kind == EvCheckpoint && e.S == "drained" && drained == 0 {
			drained = e.Seq
		}
	}
	// nothing is left running after the peer hung up
	for _, id := range h.RPCIDs {
		r := h.RPCs[id]
		for _, hr := range r.Handlers {
			if drained != 0 && hr.Start < drained && (hr.End == 0 || hr.End > drained) {
				w.AddViolation("C09", "hang", fmt.Sprintf("rpc %d: its handler had not returned at final quiescence after the raw peer hung up", id), det, hr.Start)
			}
		}
		for _, o := range r.Ops {
			if (o.Actor == "c" || o.Actor == "cr" || o.Actor == "cs") && drained != 0 && o.Inv < drained && (!o.Returned() || o.Ret > drained) && o.Op != OpPause {
				w.AddViolation("C09", "hang", fmt.Sprintf("rpc %d: caller %s[%d] had not returned at final quiescence after the raw peer hung up", id, opNames[o.Op], o.Idx), det, o.Inv)
			}
		}
	}
	for _, e := range h.Tunnel {
		if e.S == "probe" && e.S2 == "drained" {
			p := e.P.(*TunnelProbe)
			total := 0
			for _, n := range p.ServerTables {
				total += n
			}
			if total != 0 || p.ClientTable > 0 {
				w.AddViolation("C09", "resources-retained", fmt.Sprintf("after the raw peer hung up: %d server stream table entries, %d client stream table entries", total, p.ClientTable), det, e.Seq)
			}
		}
	}
	// Memory: whatever the peer declares, the endpoint may hold what was
	// delivered (at most a window per stream, plus the message being
	// assembled), not what was announced. The whole run - frames, copies,
	// history - allocates a few MiB; an envelope announcing 128 MiB or more
	// must not turn into an allocation of that size.
	if fc.hugeDeclared > 0 {
		h.Derived["probe.huge_declared_size"]++
	}
	if fc.tinyWindows > 0 {
		h.Derived["probe.handler_blocked_on_tiny_window"]++
	}
	if fc.allocDelta > 100<<20 {
		w.AddViolation("C09", "bloat", fmt.Sprintf("the process allocated %d MiB during a run in which the peer delivered well under 1 MiB (largest declared message size beyond the data delivered: %d bytes)", fc.allocDelta>>20, fc.hugeDeclared), det, 0)
	}
	if fc.role == 0 {
		if fc.maxQueued > 65536 {
			w.AddViolation("C09", "bloat", fmt.Sprintf("the server buffers %d bytes for one stream (window 65536)", fc.maxQueued), det, 0)
		}
		// how did the serving call end?
		var serveErr error
		served := false
		if t.RevServer != nil {
			served, serveErr = t.ServeReturned, t.ServeErr
		} else if t.Conn != nil {
			for _, e := range h.ConnEnds[t.Conn.ID] {
				if e.S == "server-return" {
					served = true
					if e.S2 != "" {
						serveErr = errors.New(e.S2)
					}
				}
			}
		}
		if !served {
			w.AddViolation("C09", "hang", "the serving call had not returned after the raw peer hung up", det, 0)
			return
		}
		cls := "stream-level"
		if fc.modelFatal >= 0 {
			cls = "tunnel-level"
		}
		d2 := map[string]string{"role": det["role"], "documented": cls}
		if fc.modelFatal >= 0 {
			if serveErr == nil || errors.Is(serveErr, io.EOF) {
				w.AddViolation("C09", "wrong-outcome-class", fmt.Sprintf("frame %d (%v) is a tunnel-level violation by the documented stream-id rules, but the serving call returned nil", fc.modelFatal, summarize(&Conn{}, 0, fc.frames[fc.modelFatal])), d2, 0)
			}
			if fc.probeOK {
				w.AddViolation("C09", "wrong-outcome-class", fmt.Sprintf("frame %d is a tunnel-level violation, but a later stream was still served", fc.modelFatal), d2, 0)
			}
		} else {
			if serveErr != nil && !errors.Is(serveErr, io.EOF) {
				w.AddViolation("C09", "wrong-outcome-class", fmt.Sprintf("only stream-level violations were sent (%v), but the tunnel ended with an error: %v", fc.devs, serveErr), d2, 0)
			} else if !fc.probeOK {
				w.AddViolation("C09", "collateral", fmt.Sprintf("only stream-level violations were sent (%v), but a later valid stream did not complete OK (closed=%v; tunnel ended: %v)", fc.devs, fc.probeClosed, fc.rc.RecvErr), d2, 0)
			}
		}
		return
	}
	// role 1: the real client
	d2 := map[string]string{"role": det["role"]}
	if fc.srvFatal {
		if !fc.chanDone || fc.chanErrAtEnd == nil {
			w.AddViolation("C09", "wrong-outcome-class", fmt.Sprintf("a frame for a stream id that was never created is a tunnel-level violation, but the channel is done=%v with Err()=%v", fc.chanDone, fc.chanErrAtEnd), d2, 0)
		}
	} else if fc.chanDone {
		w.AddViolation("C09", "wrong-outcome-class", fmt.Sprintf("only stream-level violations were sent (%v), but the channel closed: %v", fc.srvDevs, fc.chanErrAtEnd), d2, 0)
	}
}
