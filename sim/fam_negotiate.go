package sim

import (
	"fmt"
	"io"
	"time"

	"github.com/jhump/grpctunnel/tunnelpb"

	"verif/simrt"
)

// Families matrix and settings (C11).
//   matrix: the complete configuration matrix {client: enabled, disabled,
//     legacy} x {server: enabled, disabled, legacy} x {forward, reverse};
//     legacy ends are revision-zero raw peers that never advertise negotiation
//     and must never see a settings frame, a window update or revision one.
//   settings: a raw tunnel server presenting every settings variant.

func init() {
	register(&Family{
		Name:       "matrix",
		Run:        runMatrix,
		Oracles:    []func(*World, *History){OracleC11Matrix, OracleC01, OracleLeak},
		Nontrivial: func(w *World, h *History) bool { return h.Derived["probe.matrix_cell_ran"] > 0 },
	})
	register(&Family{
		Name:       "settings",
		Run:        runSettings,
		Oracles:    []func(*World, *History){OracleC11Settings, OracleLeak},
		Nontrivial: func(w *World, h *History) bool { return h.Derived["probe.settings_case_ran"] > 0 },
	})
}

// Matrix cell ends.
const (
	EndEnabled = iota
	EndDisabled
	EndLegacy
)

var endNames = [...]string{"enabled", "disabled", "legacy"}

type matrixCase struct {
	client, server int
	reverse        bool
	legacySaw      []string // anything a legacy raw peer received that revision zero does not know
	done           bool
	rawOK          []bool
}

func runMatrix(w *World, rs *RunSpec) {
	c := w.C
	cell := rs.P("cell", -1)
	if cell < 0 {
		cell = c.Intn(18, "cell")
	}
	mc := &matrixCase{client: cell % 3, server: (cell / 3) % 3, reverse: cell/9 == 1}
	w.matrix = mc
	w.Desc["cell"] = fmt.Sprintf("client=%s server=%s %s", endNames[mc.client], endNames[mc.server], map[bool]string{false: "forward", true: "reverse"}[mc.reverse])
	car := GenCarrier(c)
	car.LatC2S, car.LatS2C = 0, 0
	w.Desc["carrier"] = car.String()
	switch {
	case mc.client != EndLegacy && mc.server != EndLegacy:
		// both ends are the real library
		cfg := TunnelCfg{Topo: TopoForward, Carrier: car}
		if mc.reverse {
			cfg.Topo = TopoReverse
		}
		switch {
		case mc.client == EndEnabled && mc.server == EndEnabled:
			cfg.FC = FCBoth
		case mc.client == EndDisabled && mc.server == EndEnabled:
			cfg.FC = FCClientDisabled
		case mc.client == EndEnabled && mc.server == EndDisabled:
			cfg.FC = FCServerDisabled
		default:
			cfg.FC = FCBothDisabled
		}
		t, err := w.OpenTunnel(cfg)
		if err != nil {
			w.Violate("C11", "shape-failed", "tunnel could not be established in a workable configuration: "+err.Error(), map[string]string{"cell": fmt.Sprint(w.Desc["cell"])})
			return
		}
		var plans []*RPCPlan
		for sh := 0; sh < 4; sh++ {
			p := GenPlan(c, sh, GenOpts{MaxMsgs: 3, ByteBudget: 150000, Shapes: []int{sh}})
			p.Tunnel = t.Idx
			p.Role = "bystander"
			plans = append(plans, p)
		}
		cs := w.StartCallers(plans)
		cs.Wait()
		mc.done = true
		w.DrainAndProbe()
		w.FullShutdown()
	case mc.client == EndLegacy && mc.server != EndLegacy:
		// a legacy (revision zero) raw client against the real server
		cfg := RawCfg{Reverse: mc.reverse, Negotiate: false, DisableFC: mc.server == EndDisabled, Carrier: car}
		script := func(rc *RawClient) {
			sid := int64(0)
			for sh := 0; sh < 4; sh++ {
				p := rawPlan(w, sh, sh)
				rc.Send(FNew(sid, shapeMethods[sh], sh, tunnelpb.ProtocolRevision_REVISION_ZERO, 0, nil))
				n := 1
				if shapeClientStreams(sh) {
					n = 2
					p.ReqSizes = []int{12, 30000}
				}
				for m := 0; m < n; m++ {
					rc.SendMessage(sid, RequestBytes(sh, m, p.ReqSizes[m]), 0)
				}
				rc.Send(FHalf(sid))
				id := sid
				rc.WaitFor(func() bool { ok, _, _ := rc.Closed(id); return ok })
				ok, code, _ := rc.Closed(id)
				mc.rawOK = append(mc.rawOK, ok && code == 0)
				sid++
			}
			for _, m := range rc.Got {
				switch f := m.Frame.(type) {
				case *tunnelpb.ServerToClient_Settings:
					mc.legacySaw = append(mc.legacySaw, "settings")
				case *tunnelpb.ServerToClient_WindowUpdate:
					mc.legacySaw = append(mc.legacySaw, fmt.Sprintf("window_update(%d)", f.WindowUpdate))
				}
			}
			mc.done = true
			rc.Hangup()
		}
		w.OpenRawClient(cfg, script)
		w.DrainAndProbe()
		w.FullShutdown()
	case mc.client != EndLegacy && mc.server == EndLegacy:
		// the real client against a legacy raw server (no negotiate header, no settings)
		cfg := RawCfg{Reverse: mc.reverse, Negotiate: false, DisableFC: mc.client == EndDisabled, Carrier: car}
		var plans []*RPCPlan
		for sh := 0; sh < 4; sh++ {
			p := GenPlan(c, sh, GenOpts{MaxMsgs: 2, SmallOnly: true, NoMD: true, Shapes: []int{sh}})
			p.Role = "raw"
			plans = append(plans, p)
		}
		script := func(rsv *RawServer) {
			rsv.ServeConforming(w, func(sid int64, nsf *tunnelpb.NewStream) {
				if nsf.ProtocolRevision != tunnelpb.ProtocolRevision_REVISION_ZERO {
					mc.legacySaw = append(mc.legacySaw, fmt.Sprintf("new_stream revision %d", nsf.ProtocolRevision))
				}
			})
			for _, m := range rsv.Got {
				if f, ok := m.Frame.(*tunnelpb.ClientToServer_WindowUpdate); ok {
					mc.legacySaw = append(mc.legacySaw, fmt.Sprintf("window_update(%d)", f.WindowUpdate))
				}
			}
		}
		_, t, err := w.OpenRawServer(cfg, script)
		if err != nil {
			w.Violate("C11", "shape-failed", "tunnel to a legacy server could not be established: "+err.Error(), map[string]string{"cell": fmt.Sprint(w.Desc["cell"])})
			return
		}
		if cfg.Reverse {
			simrt.AwaitStall()
			if len(w.RevChans) == 0 {
				w.Violate("C11", "shape-failed", "a legacy network client opened a reverse tunnel but the handler never registered it", map[string]string{"cell": fmt.Sprint(w.Desc["cell"])})
				return
			}
			t.Chan = w.RevChans[0]
		}
		for _, p := range plans {
			p.Tunnel = t.Idx
		}
		cs := w.StartCallers(plans)
		cs.Wait()
		mc.done = true
		w.DrainAndProbe()
		if t.Chan != nil {
			t.Chan.Close()
		}
		t.OpenCancel()
		w.FullShutdown()
	default:
		// legacy against legacy involves no code of this repository
		mc.done = false
	}
}

// OracleC11Matrix: flow control is in use exactly when both ends are enabled;
// a legacy peer never sees anything revision-one; every shape works.
func OracleC11Matrix(w *World, h *History) {
	mc := w.matrix
	if mc == nil || !mc.done {
		return
	}
	h.Derived["probe.matrix_cell_ran"]++
	det := map[string]string{"cell": fmt.Sprint(w.Desc["cell"])}
	for _, s := range mc.legacySaw {
		w.AddViolation("C11", "rev1-frame-to-legacy", fmt.Sprintf("the legacy (revision zero) peer received %s", s), det, 0)
	}
	for i, ok := range mc.rawOK {
		if !ok {
			w.AddViolation("C11", "shape-failed", fmt.Sprintf("a %s RPC from a legacy client did not complete OK", shapeNames[i]), det, 0)
		}
	}
	for _, id := range h.RPCIDs {
		r := h.RPCs[id]
		if r.Plan == nil || (r.Plan.Role != "bystander" && r.Plan.Role != "raw") || len(r.Ops) == 0 || r.Ops[0].Actor == "h" {
			continue
		}
		if r.Ops[0].Actor != "c" {
			continue
		}
		term := r.Terminal()
		if term == nil || !(term.Res.Err == nil || (term.Op == OpRecv && term.Res.Err == io.EOF)) {
			var e error
			if term != nil {
				e = term.Res.Err
			}
			w.AddViolation("C11", "shape-failed", fmt.Sprintf("a %s RPC did not complete OK in a workable configuration: %v", shapeNames[r.Plan.Shape], e), det, 0)
		}
	}
	// flow control in use iff both ends enabled (the wire monitor also checks the
	// revision of every new_stream against ConnMeta)
	wantFC := mc.client == EndEnabled && mc.server == EndEnabled
	sawSettings, sawWU, sawRev1 := false, false, false
	for _, f := range h.Frames {
		if f.Info == nil {
			continue
		}
		switch f.Info.Type {
		case FSettings:
			sawSettings = true
		case FWinUpd:
			sawWU = true
		case FNewStream:
			if f.Info.Revision == 1 {
				sawRev1 = true
			}
		}
	}
	bothAdvertise := mc.client != EndLegacy && mc.server != EndLegacy
	if bothAdvertise != sawSettings {
		w.AddViolation("C11", "flowcontrol-mismatch", fmt.Sprintf("both ends advertise negotiation = %v, but a settings frame was sent = %v", bothAdvertise, sawSettings), det, 0)
	}
	if wantFC != sawRev1 || (!wantFC && sawWU) {
		w.AddViolation("C11", "flowcontrol-mismatch", fmt.Sprintf("flow control expected = %v, but revision-one streams seen = %v, window updates seen = %v", wantFC, sawRev1, sawWU), det, 0)
	}
}

// ---- settings variants -------------------------------------------------------------------

type settingsCase struct {
	windowOverrun  string
	variant        int
	workable       bool
	wantRev        int32
	startErr       error
	started        bool
	chanDone       bool
	chanErr        error
	startTook      time.Duration
	rpcErr         error
	rpcRev         int32
	rpcRan         bool
	rpcTook        time.Duration
	done           bool
	name           string
	clientDisabled bool
	zeroWindow     bool
}

type settingsVariant struct {
	name   string
	revs   []tunnelpb.ProtocolRevision
	noRevs bool
	win    uint32
	id     int64
	first  string // "", "headers", "message", "close", "eof", "silent"
}

const (
	r0 = tunnelpb.ProtocolRevision_REVISION_ZERO
	r1 = tunnelpb.ProtocolRevision_REVISION_ONE
)

var settingsVariants = []settingsVariant{
	{name: "revs=[0,1]", revs: []tunnelpb.ProtocolRevision{r0, r1}, win: 65536, id: -1},
	{name: "revs=[] (empty list)", noRevs: true, win: 65536, id: -1},
	{name: "revs=[0]", revs: []tunnelpb.ProtocolRevision{r0}, win: 65536, id: -1},
	{name: "revs=[1]", revs: []tunnelpb.ProtocolRevision{r1}, win: 65536, id: -1},
	{name: "revs=[1,0]", revs: []tunnelpb.ProtocolRevision{r1, r0}, win: 65536, id: -1},
	{name: "revs=[2]", revs: []tunnelpb.ProtocolRevision{2}, win: 65536, id: -1},
	{name: "revs=[0,2]", revs: []tunnelpb.ProtocolRevision{r0, 2}, win: 65536, id: -1},
	{name: "revs=[1,1]", revs: []tunnelpb.ProtocolRevision{r1, r1}, win: 65536, id: -1},
	{name: "revs=[7,1,0]", revs: []tunnelpb.ProtocolRevision{7, r1, r0}, win: 65536, id: -1},
	{name: "window=0", revs: []tunnelpb.ProtocolRevision{r0, r1}, win: 0, id: -1},
	{name: "window=1", revs: []tunnelpb.ProtocolRevision{r0, r1}, win: 1, id: -1},
	{name: "window=2^32-1", revs: []tunnelpb.ProtocolRevision{r0, r1}, win: 0xFFFFFFFF, id: -1},
	{name: "settings with stream id 0", revs: []tunnelpb.ProtocolRevision{r0, r1}, win: 65536, id: 0},
	{name: "settings with stream id 5", revs: []tunnelpb.ProtocolRevision{r0, r1}, win: 65536, id: 5},
	{name: "first frame is response_headers", first: "headers"},
	{name: "first frame is a message", first: "message"},
	{name: "first frame is close_stream", first: "close"},
	{name: "end of stream without settings", first: "eof"},
	{name: "silent server, opening context has a deadline", first: "silent"},
	{name: "empty first frame", first: "empty"},
}

func runSettings(w *World, rs *RunSpec) {
	c := w.C
	vi := rs.P("variant", -1)
	if vi < 0 {
		vi = c.Intn(len(settingsVariants), "svariant")
	}
	v := settingsVariants[vi]
	sc := &settingsCase{variant: vi, name: v.name}
	w.settingsCase = sc
	sc.clientDisabled = c.Intn(3, "sdisable") == 2
	reverse := c.Intn(2, "srev") == 1
	w.Desc["variant"] = v.name
	w.Desc["client_disables_fc"] = sc.clientDisabled
	w.Desc["reverse"] = reverse
	// what the documentation makes of it
	clientRevs := map[tunnelpb.ProtocolRevision]bool{r0: true, r1: !sc.clientDisabled}
	if v.first == "" && v.id == -1 {
		revs := v.revs
		if v.noRevs {
			revs = []tunnelpb.ProtocolRevision{r0} // an empty list means revision zero
		}
		best := int32(-1)
		for _, r := range revs {
			if clientRevs[r] && int32(r) > best {
				best = int32(r)
			}
		}
		if best >= 0 {
			sc.workable, sc.wantRev = true, best
		}
	}
	cfg := RawCfg{Reverse: reverse, Negotiate: true, DisableFC: sc.clientDisabled}
	cfg.Carrier = GenCarrier(c)
	cfg.Carrier.LatC2S, cfg.Carrier.LatS2C = 0, 0
	p := GenPlan(c, 0, GenOpts{Shapes: []int{ShapeUnary, ShapeBidi}, MaxMsgs: 2, SmallOnly: true, NoMD: true})
	p.Role = "raw"
	if v.name == "window=0" {
		// with an initial window of zero and credit only for consumed data, no
		// request data can ever be sent: the call can only end by its deadline
		p.Deadline = 20 * time.Millisecond
		sc.zeroWindow = true
	}
	script := func(rsv *RawServer) {
		switch v.first {
		case "":
			rsv.Window, rsv.HaveWindow = v.win, true
			rsv.Send(SSettings(v.id, v.win, v.revs...))
		case "headers":
			rsv.Send(SHeaders(1, nil))
		case "message":
			rsv.Send(SMsg(1, 3, []byte{1, 2, 3}))
		case "close":
			rsv.Send(SClose(1, 0, ""))
		case "empty":
			rsv.Send(SEmpty(-1))
		case "eof":
			return
		case "silent":
		}
		// then behave like a conforming server
		rsv.ServeConforming(w, func(sid int64, nsf *tunnelpb.NewStream) {
			sc.rpcRev = int32(nsf.ProtocolRevision)
			sc.rpcRan = true
		})
		sc.windowOverrun = rsv.WindowOverrun
	}
	var t *Tunnel
	t0 := simrt.VirtualNow()
	if !reverse {
		// Start blocks until the settings exchange is over; give the opening
		// context a deadline for the silent server
		w.openDeadline = 0
		if v.first == "silent" {
			w.openDeadline = 50 * time.Millisecond
		}
		var err error
		_, t, err = w.openRawServerWithDeadline(cfg, script, w.openDeadline)
		sc.startErr = err
		sc.started = err == nil && t.Chan != nil
	} else {
		_, t, _ = w.OpenRawServer(cfg, script)
		simrt.AwaitStall()
		if len(w.RevChans) > 0 {
			t.Chan = w.RevChans[0]
			sc.started = true
		}
	}
	sc.startTook = simrt.VirtualNow() - t0
	if sc.started {
		simrt.Atomically(func() {
			select {
			case <-t.Chan.Done():
				sc.chanDone = true
			default:
			}
			sc.chanErr = t.Chan.Err()
		})
		p.Tunnel = t.Idx
		t1 := simrt.VirtualNow()
		cs := w.StartCallers([]*RPCPlan{p})
		if !cs.Wait() {
			simrt.Emit(simrt.Event{Kind: EvCheckpoint, S: "settings-rpc-stalled"})
			t.OpenCancel()
			cs.Wait()
		}
		sc.rpcTook = simrt.VirtualNow() - t1
	}
	sc.done = true
	// this family has its own oracle for revisions; the generic wire monitor's
	// expectation (both ends support revision one) does not apply to these peers
	for id, m := range w.ConnMeta {
		m.NoJudge = true
		w.ConnMeta[id] = m
	}
	w.DrainAndProbe()
	if t != nil && t.Chan != nil {
		t.Chan.Close()
	}
	if t != nil {
		t.OpenCancel()
	}
	w.FullShutdown()
}

// openRawServerWithDeadline is OpenRawServer with a deadline on the tunnel-opening context.
func (w *World) openRawServerWithDeadline(cfg RawCfg, script func(*RawServer), d time.Duration) (*RawServer, *Tunnel, error) {
	w.nextOpenDeadline = d
	defer func() { w.nextOpenDeadline = 0 }()
	return w.OpenRawServer(cfg, script)
}

// OracleC11Settings: a workable settings message yields a working tunnel at the
// highest common revision; anything else fails the tunnel with an error, without hanging.
func OracleC11Settings(w *World, h *History) {
	sc := w.settingsCase
	if sc == nil || !sc.done {
		return
	}
	h.Derived["probe.settings_case_ran"]++
	det := map[string]string{"variant": sc.name}
	r := h.RPCs[0]
	var term *OpRec
	if r != nil {
		term = r.Terminal()
	}
	for _, e := range h.Evs {
		if e.Kind == EvCheckpoint && e.S == "settings-rpc-stalled" {
			w.AddViolation("C11", "negotiation-hang", "an RPC on the tunnel neither completed nor failed: the run stalled", det, e.Seq)
		}
	}
	if sc.windowOverrun != "" {
		w.AddViolation("C11", "settings-window-ignored", "the client did not keep to the window of the settings message: "+sc.windowOverrun, det, 0)
	}
	if sc.workable {
		if !sc.started || sc.chanDone {
			kind := "malformed-settings-rejected"
			if sc.name == "revs=[] (empty list)" {
				kind = "empty-revisions-rejected"
			}
			w.AddViolation("C11", kind, fmt.Sprintf("settings %s are workable (highest common revision %d) but the tunnel did not come up: started=%v done=%v err=%v startErr=%v", sc.name, sc.wantRev, sc.started, sc.chanDone, sc.chanErr, sc.startErr), det, 0)
			return
		}
		if sc.zeroWindow && sc.wantRev == 1 {
			return // nothing can flow; the call ended by its deadline, which is all that can be asked
		}
		if term == nil || !(term.Res.Err == nil || (term.Op == OpRecv && term.Res.Err == io.EOF)) {
			var e error
			if term != nil {
				e = term.Res.Err
			}
			w.AddViolation("C11", "shape-failed", fmt.Sprintf("settings %s: the tunnel came up but an RPC did not complete OK: %v", sc.name, e), det, 0)
			return
		}
		if sc.rpcRan && sc.rpcRev != sc.wantRev {
			w.AddViolation("C11", "wrong-revision", fmt.Sprintf("settings %s (client disables flow control: %v): the client used revision %d, the highest common revision is %d", sc.name, sc.clientDisabled, sc.rpcRev, sc.wantRev), det, 0)
		}
		return
	}
	// not workable: the tunnel must have failed with an error, RPCs fail at once
	if sc.started && !sc.chanDone {
		w.AddViolation("C11", "malformed-settings-accepted", fmt.Sprintf("settings exchange '%s' is malformed or has no common revision, but the channel is up", sc.name), det, 0)
	}
	if sc.started && sc.chanDone && sc.chanErr == nil {
		w.AddViolation("C11", "malformed-settings-accepted", fmt.Sprintf("settings exchange '%s' failed the tunnel, but Err() is nil", sc.name), det, 0)
	}
	if term != nil && (term.Res.Err == nil || (term.Op == OpRecv && term.Res.Err == io.EOF)) {
		w.AddViolation("C11", "malformed-settings-accepted", fmt.Sprintf("settings exchange '%s' is malformed or has no common revision, but an RPC completed OK", sc.name), det, 0)
	}
	if sc.rpcRan {
		w.AddViolation("C11", "proceeded-without-settings", fmt.Sprintf("settings exchange '%s' never completed, but the client put a new_stream frame (revision %d) on the tunnel", sc.name, sc.rpcRev), det, 0)
	}
	if sc.started && sc.chanDone && sc.rpcTook > 0 {
		w.AddViolation("C11", "negotiation-hang", fmt.Sprintf("settings exchange '%s': an RPC on the failed tunnel took %v of virtual time to fail", sc.name, sc.rpcTook), det, 0)
	}
}
