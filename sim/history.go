package sim

import (
	"fmt"
	"os"
	"sort"
	"strings"
	"time"

	"google.golang.org/grpc/codes"

	"verif/simrt"
)

// OpRec is one application operation: invocation and (maybe) return.
type OpRec struct {
	RPC   int
	Actor string
	Op    int
	Idx   int
	Size  int
	Inv   int64
	Ret   int64 // 0: never returned
	TInv  time.Duration
	TRet  time.Duration
	Res   *OpResult
	G     int32
}

func (o *OpRec) Returned() bool { return o.Ret != 0 }
func (o *OpRec) OK() bool       { return o.Ret != 0 && o.Res != nil && o.Res.Err == nil }

// HandlerRec is one handler invocation.
type HandlerRec struct {
	RPC          int
	Method       string
	Info         *HandlerInfo
	Start        int64
	End          int64
	Err          error
	CtxDoneAtEnd bool // the handler's context had ended when it returned
	TStart       time.Duration
}

// FrameRec is one frame on a carrier.
type FrameRec struct {
	Info    *FrameInfo
	Emit    int64
	Deliver int64 // 0: never delivered
	NetDir  int
	TEmit   time.Duration
}

// RPCHist is everything recorded about one RPC.
type RPCHist struct {
	ID       int
	Plan     *RPCPlan
	Ops      []*OpRec
	Handlers []*HandlerRec
}

// History is the merged, indexed record of a run.
type History struct {
	W          *World
	Evs        []simrt.Event
	Res        *simrt.Result
	RPCs       map[int]*RPCHist
	RPCIDs     []int
	Frames     []*FrameRec
	NFrames    int
	ConnEnds   map[int][]simrt.Event
	Tunnel     []simrt.Event
	Faults     []simrt.Event
	Derived    map[string]int64
	holWitness string
}

func (h *History) rpc(id int) *RPCHist {
	r := h.RPCs[id]
	if r == nil {
		r = &RPCHist{ID: id, Plan: h.W.Plans[id]}
		h.RPCs[id] = r
		h.RPCIDs = append(h.RPCIDs, id)
	}
	return r
}

// BuildHistory indexes the event log.
func BuildHistory(w *World, evs []simrt.Event, res *simrt.Result) *History {
	h := &History{W: w, Evs: evs, Res: res, RPCs: map[int]*RPCHist{}, ConnEnds: map[int][]simrt.Event{}, Derived: map[string]int64{}}
	type key struct {
		rpc     int
		actor   string
		op, idx int
	}
	open := map[key][]*OpRec{}
	openH := map[int][]*HandlerRec{}
	byEmit := map[int64]*FrameRec{}
	for _, e := range evs {
		switch e.Kind {
		case EvOpInvoke:
			r := h.rpc(int(e.A))
			o := &OpRec{RPC: int(e.A), Actor: e.S, Op: int(e.B), Idx: int(e.C), Size: int(e.D), Inv: e.Seq, TInv: e.T, G: e.G}
			r.Ops = append(r.Ops, o)
			k := key{o.RPC, o.Actor, o.Op, o.Idx}
			open[k] = append(open[k], o)
		case EvOpReturn:
			k := key{int(e.A), e.S, int(e.B), int(e.C)}
			if l := open[k]; len(l) > 0 {
				o := l[0]
				open[k] = l[1:]
				o.Ret, o.TRet = e.Seq, e.T
				o.Res, _ = e.P.(*OpResult)
			}
		case EvHandlerStart:
			r := h.rpc(int(e.A))
			hr := &HandlerRec{RPC: int(e.A), Method: e.S, Start: e.Seq, TStart: e.T}
			hr.Info, _ = e.P.(*HandlerInfo)
			r.Handlers = append(r.Handlers, hr)
			openH[hr.RPC] = append(openH[hr.RPC], hr)
		case EvHandlerEnd:
			if l := openH[int(e.A)]; len(l) > 0 {
				hr := l[0]
				openH[int(e.A)] = l[1:]
				hr.End = e.Seq
				hr.CtxDoneAtEnd = e.B != 0
				hr.Err, _ = e.P.(error)
			}
		case EvFrameEmit:
			fr := &FrameRec{Emit: e.Seq, NetDir: int(e.B), TEmit: e.T}
			fr.Info, _ = e.P.(*FrameInfo)
			h.Frames = append(h.Frames, fr)
			byEmit[e.Seq] = fr
			h.NFrames++
		case EvFrameDeliver:
			if fr := byEmit[e.C]; fr != nil {
				fr.Deliver = e.Seq
			}
		case EvConnEnd:
			h.ConnEnds[int(e.A)] = append(h.ConnEnds[int(e.A)], e)
		case EvTunnel:
			h.Tunnel = append(h.Tunnel, e)
		case EvFault:
			h.Faults = append(h.Faults, e)
		case EvCounter:
			h.Derived[e.S] = e.A
		case EvViolation:
			if v, ok := e.P.(*Violation); ok {
				w.Viol = append(w.Viol, *v)
			}
		}
	}
	sort.Ints(h.RPCIDs)
	return h
}

// OpsOf returns the ops of an RPC by actor set and kind, in invocation order.
func (r *RPCHist) OpsOf(op int, actors ...string) []*OpRec {
	var out []*OpRec
	for _, o := range r.Ops {
		if o.Op != op {
			continue
		}
		for _, a := range actors {
			if o.Actor == a {
				out = append(out, o)
				break
			}
		}
	}
	return out
}

// Terminal returns the caller's terminal result op (first Recv/Invoke/Start that
// returned a terminal result), or nil.
func (r *RPCHist) Terminal() *OpRec {
	for _, o := range r.Ops {
		if (o.Actor == "c" || o.Actor == "cr") && o.Returned() && o.Res != nil && o.Res.Terminal {
			return o
		}
	}
	return nil
}

// Render writes a human-readable history (bounded).
func (h *History) Render(max int) []string {
	var out []string
	skip := 0
	if len(h.Evs) > max {
		skip = len(h.Evs) - max
		out = append(out, fmt.Sprintf("... %d earlier events omitted ...", skip))
	}
	for _, e := range h.Evs[skip:] {
		var s string
		switch e.Kind {
		case EvFrameEmit:
			s = fmt.Sprintf("emit    %v", e.P)
		case EvFrameDeliver:
			s = fmt.Sprintf("deliver %v (emitted #%d)", e.P, e.C)
		case EvConnOpen:
			s = fmt.Sprintf("conn%d open reverse=%d carrier=%s", e.A, e.B, e.S)
		case EvConnEnd:
			s = fmt.Sprintf("conn%d %s %s", e.A, e.S, e.S2)
		case EvOpInvoke:
			s = fmt.Sprintf("rpc%d %s %s[%d] size=%d ->", e.A, e.S, opNames[int(e.B)], e.C, e.D)
		case EvOpReturn:
			extra := ""
			if r, ok := e.P.(*OpResult); ok && r != nil {
				if r.Err == nil && (int(e.B) == OpRecv || int(e.B) == OpInvoke) {
					extra = fmt.Sprintf(" len=%d match=%v", r.Len, r.Match)
				}
				if r.MD != nil {
					extra += fmt.Sprintf(" md=%v", r.MD)
				}
				if tr, ok := r.Extra["trailer"]; ok {
					extra += fmt.Sprintf(" trailer=%v", tr)
				}
			}
			s = fmt.Sprintf("rpc%d %s %s[%d] <- err=%q%s", e.A, e.S, opNames[int(e.B)], e.C, e.S2, extra)
		case EvHandlerStart:
			s = fmt.Sprintf("rpc%d handler start %s", e.A, e.S)
		case EvHandlerEnd:
			s = fmt.Sprintf("rpc%d handler end err=%q", e.A, e.S2)
		case EvFault:
			s = fmt.Sprintf("FAULT %s %d %d %s", e.S, e.A, e.B, e.S2)
		case EvNote:
			s = "note " + e.S
		case EvTunnel:
			s = fmt.Sprintf("tunnel%d %s %s", e.A, e.S, e.S2)
		case EvCounter:
			h.Derived[e.S] = e.A
		case EvViolation:
			s = fmt.Sprintf("VIOLATION %s %s", e.S, e.S2)
		case EvCheckpoint:
			s = "checkpoint " + e.S
			if os.Getenv("VERIF_DEBUG_STACKS") != "" && e.S2 != "" {
				s += "\n" + e.S2
			}
		default:
			s = fmt.Sprintf("event kind=%d", e.Kind)
		}
		g := "-"
		if e.G >= 0 && h.W.Sim != nil {
			g = h.W.Sim.GName(e.G)
		}
		out = append(out, fmt.Sprintf("#%d t=%v [%s] %s", e.Seq, e.T, g, s))
	}
	return out
}

// commonOracles: panics and simulator sanity, evaluated for every family.
func commonOracles(w *World, h *History) {
	for _, p := range h.Res.Panics {
		first := firstLibFrame(p.Stack)
		w.AddViolation("*", "panic", fmt.Sprintf("panic in goroutine %s (spawned at %s): %s\n%s", p.G, p.Site, p.Value, p.Stack),
			map[string]string{"value": normalizePanic(p.Value), "at": first}, p.Seq)
	}
	if h.Res.Budget {
		w.AddViolation("*", "step-budget", fmt.Sprintf("run exceeded its step budget (%d steps): livelock", h.Res.Steps), nil, 0)
	}
}

func normalizePanic(s string) string {
	if len(s) > 120 {
		s = s[:120]
	}
	return s
}

// firstLibFrame extracts the first stack frame inside the library.
func firstLibFrame(stack string) string {
	lines := strings.Split(stack, "\n")
	for i, l := range lines {
		if strings.HasPrefix(l, "github.com/jhump/grpctunnel.") && !strings.Contains(l, "simrt") {
			fn := l
			if j := strings.LastIndex(fn, "("); j > 0 {
				fn = fn[:j]
			}
			_ = i
			return strings.TrimPrefix(fn, "github.com/jhump/grpctunnel.")
		}
	}
	return ""
}

func codeOf(o *OpRec) codes.Code {
	if o == nil || o.Res == nil {
		return codes.Unknown
	}
	return o.Res.Code
}
