package sim

import (
	"context"
	"fmt"
	"time"
	"unsafe"

	"github.com/jhump/grpctunnel"

	"verif/simrt"
)

// Families flowcore and flow (C05).

func init() {
	register(&Family{
		Name:    "flowcore",
		Run:     runFlowCore,
		Oracles: []func(*World, *History){},
		Nontrivial: func(w *World, h *History) bool {
			return h.Derived["probe.sender_blocked_on_zero_window"] > 0
		},
	})
	register(&Family{
		Name:    "flow",
		Run:     runFlow,
		Oracles: []func(*World, *History){OracleHung("C05"), OracleFlowDone, OracleC01, OracleLeak},
		Nontrivial: func(w *World, h *History) bool {
			return h.Derived["probe.window_full_observed"] > 0 || h.Derived["probe.message_multi_chunk"] > 0
		},
	})
}

// ---- flowcore: sender and receiver in isolation ----------------------------------------

type fcHarness struct {
	w        *World
	W        uint32
	snd      *grpctunnel.VerifSender
	rcv      *grpctunnel.VerifReceiver
	pipe     [][]byte // frames emitted by the sender, not yet accepted by the receiver
	pipeB    int
	credits  []uint32 // credit emitted by the receiver, not yet applied to the sender
	creditB  int
	key      byte
	sent     int // messages fully submitted
	consumed int // bytes dequeued
	produced int // bytes handed to Send
	gotMsgs  int
	inSend   bool
	prodDone bool
	consDone bool
	paused   bool
	violated bool
	maxQ     int
}

// snapshot checks conservation; it runs atomically.
func (f *fcHarness) check(where string) {
	if f.violated {
		return
	}
	simrt.Atomically(func() {
		// The snapshot must be taken without a scheduling point in it. Reading
		// the receiver's state takes the receiver's lock; if the holder of
		// that lock is parked (an implementation may have a scheduling point
		// inside its critical section, e.g. closing a channel under the lock)
		// the reader is parked too and the other terms move meanwhile. So: take
		// the snapshot, and take it again if the scheduler ran in between.
		var s int64
		var rw uint32
		stable := false
		for tries := 0; tries < 20 && !stable; tries++ {
			st0 := simrt.Steps()
			rw, _ = f.rcv.State()
			s = f.snd.Window()
			stable = simrt.Steps() == st0
		}
		if !stable {
			return // no consistent snapshot to judge
		}
		q := int64(f.W) - int64(rw)
		total := s + int64(f.pipeB) + q + int64(f.creditB)
		if q > int64(f.maxQ) {
			f.maxQ = int(q)
		}
		if total > int64(f.W) {
			f.violated = true
			f.w.Violate("C05", "conservation-broken", fmt.Sprintf("%s: sender window %d + bytes in flight %d + receiver queue %d + credit in flight %d = %d exceeds the window %d",
				where, s, f.pipeB, q, f.creditB, total, f.W), map[string]string{"how": "exceeds-window"})
		}
		if q > int64(f.W) || rw > f.W {
			f.violated = true
			f.w.Violate("C06", "receiver-overbuffered", fmt.Sprintf("%s: the receiver buffers %d bytes, its window is %d", where, q, f.W), nil)
		}
	})
}

func runFlowCore(w *World, rs *RunSpec) {
	c := w.C
	W := Pick(c, "fcwindow", uint32(1), uint32(2), uint32(3), uint32(7), uint32(64), uint32(65536))
	nmsg := 1 + c.Intn(40, "fcnmsg")
	if W <= 7 {
		nmsg = 1 + c.Intn(12, "fcnmsg2")
	}
	sizes := make([]int, nmsg)
	for i := range sizes {
		switch {
		case W <= 64:
			sizes[i] = c.Intn(int(3*W)+2, "fcsize")
		default:
			sizes[i] = Pick(c, "fcsizeb", 0, 1, 100, 16383, 16384, 16385, 65535, 65536, 65537, 100000)
		}
	}
	pauseAt := -1
	if c.Intn(2, "fcpause") == 1 {
		pauseAt = c.Intn(nmsg+1, "fcpauseat")
	}
	cancelAt := -1
	if c.Intn(6, "fccancel") == 5 {
		cancelAt = c.Intn(nmsg+1, "fccancelat")
	}
	batchCredits := c.Intn(2, "fcbatch") == 1
	w.Desc["window"] = W
	w.Desc["sizes"] = sizes
	w.Desc["consumer_pause_after"] = pauseAt
	w.Desc["cancel_after"] = cancelAt
	w.Desc["batch_credits"] = batchCredits
	ctx, cancel := context.WithCancel(w.RootCtx)
	defer cancel()
	f := &fcHarness{w: w, W: W}
	f.snd = grpctunnel.VerifNewSender(ctx, W, func(data []byte, total uint32, first bool) error {
		// the sender's frame goes onto the wire
		simrt.Atomically(func() {
			f.pipe = append(f.pipe, append([]byte(nil), data...))
			f.pipeB += len(data)
		})
		simrt.Wake(unsafe.Pointer(&f.key))
		f.check("after sendFunc")
		return nil
	})
	f.rcv = grpctunnel.VerifNewReceiver(W, func(n uint32) {
		simrt.Atomically(func() {
			f.credits = append(f.credits, n)
			f.creditB += int(n)
		})
		simrt.Wake(unsafe.Pointer(&f.key))
		f.check("after credit emitted")
	})
	totalBytes := 0
	for _, s := range sizes {
		totalBytes += s
	}
	// producer
	simrt.Go("fc.producer", func() {
		for i, s := range sizes {
			if i == cancelAt {
				simrt.Count(CntFaultCancelRPC, 1)
				cancel()
			}
			f.inSend = true
			err := f.snd.Send(make([]byte, s))
			f.inSend = false
			if err != nil {
				break
			}
			f.sent++
			f.produced += s
			f.check("after Send returned")
		}
		f.prodDone = true
		simrt.Wake(unsafe.Pointer(&f.key))
	})
	// frame pump: wire -> receiver
	simrt.Go("fc.framepump", func() {
		for {
			var b []byte
			have := false
			simrt.Atomically(func() {
				if len(f.pipe) > 0 {
					b, have = f.pipe[0], true
				}
			})
			if !have {
				if f.prodDone {
					return
				}
				if !simrt.WaitOrStall(unsafe.Pointer(&f.key)) && f.prodDone {
					return
				}
				if ctx.Err() != nil && f.prodDone {
					return
				}
				continue
			}
			// take it off the wire count first, then accept: the monitored sum is an
			// upper bound, so it may dip for a moment but must never double count
			simrt.Atomically(func() {
				f.pipe = f.pipe[1:]
				f.pipeB -= len(b)
			})
			err := f.rcv.Accept(b)
			if err != nil {
				f.w.Violate("C06", "sender-overrun", fmt.Sprintf("the receiver refused a frame of %d bytes from a well-behaved sender: %v", len(b), err), nil)
				return
			}
			f.check("after accept")
		}
	})
	// credit pump: receiver -> sender
	simrt.Go("fc.creditpump", func() {
		for {
			var n uint32
			simrt.Atomically(func() {
				if len(f.credits) > 0 {
					if batchCredits {
						for _, c := range f.credits {
							n += c
						}
						f.credits = nil
					} else {
						n = f.credits[0]
						f.credits = f.credits[1:]
					}
				}
			})
			if n == 0 {
				if f.consDone {
					return
				}
				if !simrt.WaitOrStall(unsafe.Pointer(&f.key)) && f.consDone {
					return
				}
				continue
			}
			// remove from the in-flight count first, then apply (see the frame pump)
			simrt.Atomically(func() { f.creditB -= int(n) })
			f.snd.UpdateWindow(n)
			f.check("after UpdateWindow")
		}
	})
	// consumer
	simrt.Go("fc.consumer", func() {
		for f.consumed < totalBytes || !f.prodDone {
			if f.gotMsgs == pauseAt && !f.paused {
				f.paused = true
				simrt.Count(CntFaultReaderPause, 1)
				w.Gate(800).Wait(w.RootCtx)
			}
			if f.prodDone && f.consumed >= f.produced {
				break
			}
			b, ok := f.rcv.Dequeue()
			if !ok {
				break
			}
			f.consumed += len(b)
			f.gotMsgs++
			f.check("after dequeue")
			if f.prodDone && f.consumed >= f.produced {
				break
			}
		}
		f.consDone = true
		simrt.Wake(unsafe.Pointer(&f.key))
	})
	// director: wait for completion or a stall
	done := func() bool { return f.prodDone && (f.consDone || f.consumed >= f.produced) }
	for !done() {
		if simrt.WaitOrStall(unsafe.Pointer(&f.key)) {
			continue
		}
		if done() {
			break
		}
		if ctx.Err() != nil {
			// cancelled mid-stream: the rest never arrives; the only thing that
			// must not happen is the producer still sitting in Send
			if f.inSend {
				f.violated = true
				f.w.Violate("C05", "strand-lost-wakeup", "the sender's context was cancelled but the producer is still blocked in Send at a stall", map[string]string{"where": "core-cancel"})
			}
			break
		}
		// stalled: legitimate only if the consumer is parked at its gate and a
		// full window is unread
		legit := false
		simrt.Atomically(func() {
			s := f.snd.Window()
			rw, _ := f.rcv.State()
			q := int64(f.W) - int64(rw)
			parked := f.paused && !f.w.Gate(800).open
			if parked && !f.inSend {
				legit = true // the producer is not waiting for anything; only the parked consumer is left
			}
			if parked && f.inSend && s == 0 && q+int64(f.pipeB)+int64(f.creditB) == int64(f.W) {
				legit = true // blocked on a full window of unread data
			}
			if !legit && !f.violated {
				f.violated = true
				kind := "strand-lost-wakeup"
				if s+int64(f.pipeB)+q+int64(f.creditB) < int64(f.W) {
					kind = "strand-credit-leak"
				}
				f.w.Violate("C05", kind, fmt.Sprintf("the run stalled with the producer in Send=%v (sent %d of %d messages), consumer paused=%v: sender window %d, bytes in flight %d, receiver queue %d, credit in flight %d, window %d",
					f.inSend, f.sent, len(sizes), f.paused && !f.w.Gate(800).open, s, f.pipeB, q, f.creditB, f.W), map[string]string{"where": "core"})
			}
		})
		if legit {
			simrt.Count(CntProbeSenderZeroWindow, 1)
			w.OpenGate(800)
			continue
		}
		break
	}
	w.OpenGate(800)
	if ctx.Err() == nil && done() && !f.violated {
		// everything read: the whole window is available again
		simrt.AwaitStall()
		simrt.Atomically(func() {
			if s := f.snd.Window(); s != int64(f.W) || f.pipeB != 0 || f.creditB != 0 {
				f.w.Violate("C05", "window-not-restored", fmt.Sprintf("everything was read (%d bytes) but the sender's window is %d of %d (in flight: %d data, %d credit)", f.consumed, s, f.W, f.pipeB, f.creditB), nil)
			}
		})
	}
	cancel()
	f.rcv.Cancel()
	simrt.Wake(unsafe.Pointer(&f.key))
	simrt.AwaitStall()
}

// ---- flow: whole tunnel ------------------------------------------------------------------

func runFlow(w *World, rs *RunSpec) {
	c := w.C
	thorough := rs.Tier == "thorough"
	cfg := drawTunnelCfg(c, false)
	cfg.FC = FCBoth // C05 is about negotiated flow control
	if rs.P("volume", 0) == 1 {
		cfg.Carrier.LatC2S, cfg.Carrier.LatS2C, cfg.Carrier.Buggify = 0, 0, 0
		if cfg.Topo > TopoReverse {
			cfg.Topo = TopoForward
		}
	}
	switch c.Intn(4, "flowcap") {
	case 0:
		cfg.Carrier.CapFrames = 1
	case 1:
		cfg.Carrier.CapFrames = 2 + c.Intn(6, "flowcapn")
	case 2:
		cfg.Carrier.CapBytes = 65536
	}
	describeTunnel(w, cfg)
	t, err := w.OpenTunnel(cfg)
	if err != nil {
		w.Violate("C11", "shape-failed", "tunnel could not be established: "+err.Error(), map[string]string{"topology": topoNames[cfg.Topo], "fc": fcNames[cfg.FC]})
		return
	}
	mode := rs.P("mode", -1)
	if mode < 0 {
		mode = c.Intn(10, "flowmode")
	}
	var plans []*RPCPlan
	switch {
	case rs.P("volume", 0) == 1:
		// volume: very many one-byte messages on one stream: a credit leak of one
		// byte per message exhausts the 64 KiB window
		n := 70000
		if thorough {
			n = 200000
		}
		p := GenPlan(c, 0, GenOpts{Shapes: []int{ShapeClientStream, ShapeServerStream}, MaxMsgs: 1, SmallOnly: true, NoMD: true})
		p.Tunnel = t.Idx
		sizes := make([]int, n)
		for i := range sizes {
			sizes[i] = 1
		}
		if p.Shape == ShapeClientStream {
			p.ReqSizes, p.RespSizes = sizes, []int{1}
		} else {
			p.ReqSizes, p.RespSizes = []int{1}, sizes
		}
		DefaultScripts(c, p)
		plans = append(plans, p)
		w.Desc["volume_messages"] = n
		// each message costs some tens of steps (more with a one-frame carrier
		// and an adversarial scheduler); 2000 per message is far beyond that
		simrt.SetMaxSteps(int64(n) * 2000)
	default:
		n := 2 + c.Intn(6, "nstreams")
		if thorough {
			n = 2 + c.Intn(11, "nstreams")
		}
		budget := 400000
		if thorough {
			budget = 3000000
		}
		for i := 0; i < n; i++ {
			p := GenPlan(c, i, GenOpts{MaxMsgs: 8, ByteBudget: budget, Shapes: []int{ShapeClientStream, ShapeServerStream, ShapeBidi}})
			p.Tunnel = t.Idx
			// reader pacing: some consumers stall for a while (gate), some nap
			switch c.Intn(4, "pace") {
			case 1: // caller's reader parks until released
				if shapeServerStreams(p.Shape) {
					at := c.Intn(len(p.RespSizes)+1, "pauseat")
					var ops []Op
					for j := 0; j < at; j++ {
						ops = append(ops, Op{Kind: OpRecv})
					}
					ops = append(ops, Op{Kind: OpPause, N: 810}, Op{Kind: OpRecvAll})
					p.CallerRecv = ops
					p.pausedReader, p.pausedSide = true, "caller"
					if c.Intn(3, "cancelstalled") == 0 {
						p.cancelWhenStalled = "caller-paused"
					}
				}
			case 2: // handler's reader parks until released
				if shapeClientStreams(p.Shape) && len(p.HandlerSend) == 0 {
					p.Handler = append([]Op{{Kind: OpPause, N: 810}}, p.Handler...)
					p.pausedReader, p.pausedSide = true, "handler"
					if c.Intn(3, "cancelstalled") == 0 {
						p.cancelWhenStalled = "handler-paused"
					}
				} else if shapeClientStreams(p.Shape) {
					// a full-duplex handler (one goroutine reads, another sends)
					// whose reading goroutine parks: its responses keep flowing
					p.Handler = append([]Op{{Kind: OpPause, N: 810}}, p.Handler...)
					p.pausedReader, p.pausedSide = true, "handler-duplex"
				}
			case 3:
				p.CallerRecv = append([]Op{{Kind: OpSleep, D: time.Duration(1+c.Intn(20, "nap")) * time.Millisecond}}, p.CallerRecv...)
			}
			plans = append(plans, p)
		}
	}
	var descs []any
	for _, p := range plans {
		d := planDesc(p)
		if p.pausedReader {
			d["paused_reader"] = true
			d["paused_side"] = p.pausedSide
			d["duplex_handler"] = len(p.HandlerSend) > 0
		}
		if p.cancelWhenStalled != "" {
			d["cancelled_when_stalled"] = p.cancelWhenStalled
		}
		if len(p.ReqSizes) > 50 || len(p.RespSizes) > 50 {
			d["req_sizes"], d["resp_sizes"] = len(p.ReqSizes), len(p.RespSizes)
		}
		descs = append(descs, d)
	}
	w.Desc["rpcs"] = descs
	cs := w.StartCallers(plans)
	if !cs.Wait() {
		// stalled: legitimate while consumers are parked; every other stream must have finished
		simrt.Emit(simrt.Event{Kind: EvCheckpoint, S: "flow-stalled", S2: simrt.LiveStacks()})
		simrt.Count(CntFaultReaderPause, 1)
		// some of the stalled streams are cancelled by their callers while
		// their senders wait for credit: each sender must be released by that
		// and the tunnel must keep working for the others
		cancelled := false
		for _, p := range plans {
			if p.cancelWhenStalled != "" && p.Res != nil && p.Res.CallerCancel != nil {
				simrt.Count(CntFaultCancelRPC, 1)
				simrt.Emit(simrt.Event{Kind: EvFault, S: "cancel-stalled-stream", A: int64(p.ID)})
				p.Res.CallerCancel()
				cancelled = true
			}
		}
		if cancelled {
			simrt.AwaitStall()
			simrt.Emit(simrt.Event{Kind: EvCheckpoint, S: "flow-cancelled-settled", S2: simrt.LiveStacks()})
		}
		w.OpenGate(810)
		if !cs.Wait() {
			simrt.Emit(simrt.Event{Kind: EvCheckpoint, S: "flow-stalled-after-resume", S2: simrt.LiveStacks()})
		}
	}
	w.OpenGate(810)
	w.DrainAndProbe()
	w.FullShutdown()
}

// OracleFlowDone (C05): streams whose peers keep reading complete even while
// others are stalled; after every paused consumer is resumed everything completes.
func OracleFlowDone(w *World, h *History) {
	var stall, stall2 int64
	for _, e := range h.Evs {
		if e.Kind == EvCheckpoint && e.S == "flow-stalled" {
			stall = e.Seq
		}
		if e.Kind == EvCheckpoint && e.S == "flow-stalled-after-resume" {
			stall2 = e.Seq
		}
	}
	for _, f := range h.Frames {
		if f.Info != nil && (f.Info.Type == FMoreReq || f.Info.Type == FMoreResp) {
			h.Derived["probe.message_multi_chunk"]++
			break
		}
	}
	if stall != 0 {
		h.Derived["probe.window_full_observed"]++
	}
	var settled int64
	for _, e := range h.Evs {
		if e.Kind == EvCheckpoint && e.S == "flow-cancelled-settled" {
			settled = e.Seq
		}
	}
	for _, id := range h.RPCIDs {
		r := h.RPCs[id]
		if r.Plan == nil {
			continue
		}
		if settled != 0 && r.Plan.cancelWhenStalled != "" {
			h.Derived["probe.cancelled_while_window_full"]++
			det := map[string]string{"where": "tunnel", "paused": r.Plan.cancelWhenStalled}
			switch r.Plan.cancelWhenStalled {
			case "caller-paused":
				// the handler was sending into a full window: the cancellation must release it
				for _, hr := range r.Handlers {
					if hr.Start < settled && (hr.End == 0 || hr.End > settled) {
						w.AddViolation("C05", "strand-after-cancel", fmt.Sprintf("rpc %d was cancelled by its caller while its handler waited for flow-control credit; everything settled (#%d) and the handler is still blocked", id, settled), det, settled)
					}
				}
			case "handler-paused":
				// the caller was sending into a full window
				for _, o := range r.Ops {
					if (o.Actor == "cs" || o.Actor == "c") && o.Inv < settled && (!o.Returned() || o.Ret > settled) {
						w.AddViolation("C05", "strand-after-cancel", fmt.Sprintf("rpc %d was cancelled while its caller waited for flow-control credit in %s; everything settled (#%d) and the caller is still blocked", id, opNames[o.Op], settled), det, settled)
					}
				}
			}
		}
		// The two directions of a stream have their own windows: while one
		// consumer is parked, the other direction - whose consumer keeps
		// reading from a goroutine of its own - must still drain.
		if stall != 0 && r.Plan.pausedReader && len(r.Plan.HandlerSend) > 0 {
			switch r.Plan.pausedSide {
			case "caller":
				// caller's reader parked, full-duplex handler: the requests go through
				h.Derived["probe.other_direction_while_parked"]++
				for _, o := range r.Ops {
					if o.Actor == "cs" && (o.Op == OpSend || o.Op == OpCloseSend) && o.Inv < stall && (!o.Returned() || o.Ret > stall) {
						w.AddViolation("C05", "strand-other-direction", fmt.Sprintf("rpc %d: the caller's %s[%d] had not returned when the run stalled (#%d) although the handler reads requests in a goroutine of its own; only the caller's reader is parked, which concerns the responses", id, opNames[o.Op], o.Idx, stall),
							map[string]string{"where": "tunnel", "parked": "caller-reader", "blocked": "caller-sender"}, stall)
						break
					}
				}
			case "handler-duplex":
				// handler's reader parked, its sender runs: the responses go through
				h.Derived["probe.other_direction_while_parked"]++
				for _, o := range r.Ops {
					if o.Actor == "hs" && o.Op == OpSend && o.Inv < stall && (!o.Returned() || o.Ret > stall) {
						w.AddViolation("C05", "strand-other-direction", fmt.Sprintf("rpc %d: the handler's send[%d] had not returned when the run stalled (#%d) although the caller reads responses in a goroutine of its own; only the handler's reader is parked, which concerns the requests", id, o.Idx, stall),
							map[string]string{"where": "tunnel", "parked": "handler-reader", "blocked": "handler-sender"}, stall)
						break
					}
				}
			}
		}
		term := r.Terminal()
		if stall != 0 && !r.Plan.pausedReader && (term == nil || term.Ret > stall) {
			w.AddViolation("C05", "strand-behind-stalled-stream", fmt.Sprintf("rpc %d, whose peers keep reading, had not completed when the run stalled (#%d) with other streams' consumers parked", id, stall),
				map[string]string{"where": "tunnel"}, stall)
		}
		if stall2 != 0 && (term == nil || term.Ret > stall2) {
			w.AddViolation("C05", "strand-after-resume", fmt.Sprintf("rpc %d had not completed when the run stalled again (#%d) after every paused consumer had been resumed", id, stall2),
				map[string]string{"where": "tunnel"}, stall2)
		}
	}
}
