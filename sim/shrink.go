package sim

import (
	"sync/atomic"
	"testing"
	"time"
)

var workerBusy atomic.Bool

// ShrinkJob asks a worker to minimise the choice list of a failing run.
type ShrinkJob struct {
	Spec     RunSpec           `json:"spec"`
	Property string            `json:"property"`
	Kind     string            `json:"kind"`
	Detail   map[string]string `json:"detail,omitempty"`
	BudgetMs int               `json:"budget_ms"`
}

// ShrinkResult is the minimised run.
type ShrinkResult struct {
	Choices  []uint32   `json:"choices"`
	Out      *RunOutput `json:"out"`
	Attempts int        `json:"attempts"`
	Accepted int        `json:"accepted"`
	From     int        `json:"from"`
}

func hasViolation(out *RunOutput, prop, kind string, detail map[string]string) bool {
	if out == nil || out.Infra != "" {
		return false
	}
	for _, v := range out.Violations {
		if (v.Property == prop || v.Property == "*" || prop == "*") && v.Kind == kind {
			same := true
			for k, want := range detail {
				if v.Detail[k] != want {
					same = false
				}
			}
			if same {
				return true
			}
		}
	}
	return false
}

// RunShrink reduces the recorded choice sequence (DESIGN.md 2.5): delete
// chunks, zero ranges, lower values, while the same property and violation
// kind still fail. A run is a pure function of the choice list, so no
// cooperation from the system under test is needed.
func RunShrink(t *testing.T, job *ShrinkJob) *ShrinkResult {
	deadline := time.Now().Add(time.Duration(job.BudgetMs) * time.Millisecond)
	res := &ShrinkResult{From: len(job.Spec.Replay)}
	cur := append([]uint32(nil), job.Spec.Replay...)
	var best *RunOutput
	try := func(cand []uint32) bool {
		if time.Now().After(deadline) {
			return false
		}
		res.Attempts++
		spec := job.Spec
		spec.Replay = cand
		spec.KeepLog = false
		workerBusy.Store(true)
		out := RunOne(t, spec)
		workerBusy.Store(false)
		if hasViolation(out, job.Property, job.Kind, job.Detail) {
			res.Accepted++
			// the run may have consumed fewer choices than provided
			if out.NChoices < len(cand) {
				cand = cand[:out.NChoices]
			}
			cur = append([]uint32(nil), cand...)
			best = out
			return true
		}
		return false
	}
	// establish the baseline (and trim to what is consumed)
	if !try(cur) {
		res.Choices = cur
		return res
	}
	// 1. shortest failing prefix (the rest answers 0)
	lo, hi := 0, len(cur)
	for lo < hi && time.Now().Before(deadline) {
		mid := (lo + hi) / 2
		if try(cur[:mid]) {
			hi = len(cur)
			if hi > mid {
				hi = mid
			}
		} else {
			lo = mid + 1
		}
	}
	improved := true
	for improved && time.Now().Before(deadline) {
		improved = false
		// 2. delete chunks
		for sz := len(cur) / 2; sz >= 1; sz /= 2 {
			for i := 0; i+sz <= len(cur) && time.Now().Before(deadline); {
				cand := append(append([]uint32(nil), cur[:i]...), cur[i+sz:]...)
				if try(cand) {
					improved = true
				} else {
					i += sz
				}
			}
		}
		// 3. zero chunks
		for sz := len(cur) / 2; sz >= 1; sz /= 2 {
			for i := 0; i+sz <= len(cur) && time.Now().Before(deadline); i += sz {
				allZero := true
				for _, v := range cur[i : i+sz] {
					if v != 0 {
						allZero = false
						break
					}
				}
				if allZero {
					continue
				}
				cand := append([]uint32(nil), cur...)
				for j := i; j < i+sz; j++ {
					cand[j] = 0
				}
				if try(cand) {
					improved = true
				}
			}
		}
		// 4. lower single values
		for i := 0; i < len(cur) && time.Now().Before(deadline); i++ {
			for cur[i] > 0 {
				cand := append([]uint32(nil), cur...)
				cand[i] = cur[i] / 2
				if !try(cand) {
					if cur[i] > 1 {
						cand = append([]uint32(nil), cur...)
						cand[i] = cur[i] - 1
						if try(cand) {
							improved = true
							continue
						}
					}
					break
				}
				improved = true
				if i >= len(cur) {
					break
				}
			}
		}
	}
	// final run with the full log for the replay file
	spec := job.Spec
	spec.Replay = cur
	spec.KeepLog = true
	workerBusy.Store(true)
	out := RunOne(t, spec)
	workerBusy.Store(false)
	if hasViolation(out, job.Property, job.Kind, job.Detail) {
		best = out
	}
	res.Choices = cur
	res.Out = best
	return res
}
