// Package touch holds the harness's accesses to memory it shares with the
// library under test: call-option targets, metadata maps handed out by the
// library, message payloads, peers. In the race build the rest of the harness
// (package sim) is compiled without race instrumentation - it is serialised by
// the simulator's hidden hand-offs and would otherwise report its own
// bookkeeping - while this package is instrumented, so that what an
// application would read or write is still judged, on the goroutine that does
// it. Every function is noinline: a body inlined into the uninstrumented
// caller would lose its instrumentation.
package touch

import (
	"strconv"

	"google.golang.org/grpc/metadata"
	"google.golang.org/grpc/peer"
)

// CopyMD reads every key and value of md.
//
//go:noinline
func CopyMD(md metadata.MD) metadata.MD {
	if md == nil {
		return nil
	}
	return md.Copy()
}

// LoadMD reads the variable (a grpc.Header / grpc.Trailer target) and what it points to.
//
//go:noinline
func LoadMD(p *metadata.MD) metadata.MD {
	return CopyMD(*p)
}

// Load reads a variable the library may write (a call-option target).
//
//go:noinline
func Load[T any](p *T) T {
	return *p
}

// PeerString reads the peer the library filled in.
//
//go:noinline
func PeerString(p *peer.Peer) string {
	if p == nil || p.Addr == nil {
		return ""
	}
	return p.Addr.String()
}

// Bytes reads all of b and returns a copy (at most n bytes; n < 0: all).
//
//go:noinline
func Bytes(b []byte, n int) []byte {
	if n >= 0 && len(b) > n {
		b = b[:n]
	}
	return append([]byte(nil), b...)
}

// Equal compares what was received with what was expected, reading all of got.
//
//go:noinline
func Equal(got, exp []byte) bool {
	if len(exp) != len(got) {
		return false
	}
	eq := true
	for i := range got {
		if exp[i] != got[i] {
			eq = false
		}
	}
	return eq
}

// Mutate overwrites every value of md in place and adds a key, the way an
// application that believes it owns the map may do.
//
//go:noinline
func Mutate(md metadata.MD, tag string, id int) {
	for k, vs := range md {
		for i := range vs {
			vs[i] = tag + strconv.Itoa(id)
		}
		md[k] = vs
	}
	md["added-by-"+tag] = []string{strconv.Itoa(id)}
}
