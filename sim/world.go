package sim

import (
	"context"
	"fmt"
	"sort"
	"sync"
	"time"

	"google.golang.org/protobuf/proto"

	"github.com/jhump/grpctunnel"
	"github.com/jhump/grpctunnel/tunnelpb"

	"verif/simrt"
)

// Event kinds (simrt.Event.Kind).
const (
	EvFrameEmit    = iota + 1 // A=conn B=netdir C=bytes P=*FrameInfo
	EvFrameDeliver            // A=conn B=netdir C=emit seq P=*FrameInfo
	EvConnOpen                // A=conn B=reverse S=carrier
	EvConnEnd                 // A=conn S=cause S2=detail
	EvOpInvoke                // A=rpc B=op C=idx D=size S=actor("c"/"h")
	EvOpReturn                // A=rpc B=op C=idx D=aux S=actor S2=error string P=*OpResult
	EvHandlerStart            // A=rpc S=method P=*HandlerInfo
	EvHandlerEnd              // A=rpc S2=status
	EvFault                   // S=kind A.. free
	EvNote                    // S=text
	EvTunnel                  // S=what ("chan-start","chan-done","serve-return","rev-open","rev-close"...) A=tunnel idx S2=detail
	EvViolation               // S=property S2=kind P=*Violation
	EvCheckpoint              // S=name
	EvCounter                 // S=counter name A=value (reported to the driver)
)

// Network directions of a carrier stream.
const (
	DirC2S = 0
	DirS2C = 1
)

// Counters (simrt.Count indexes): probes and fault counters.
const (
	CntCarrierBackpressure = iota
	CntBuggifySendStall
	CntFaultBreak
	CntFaultCancelRPC
	CntFaultDeadlineRPC
	CntFaultCloseChannel
	CntFaultCancelTunnelCtx
	CntFaultStop
	CntFaultGracefulStop
	CntFaultInitiateShutdown
	CntFaultHandlerEarlyReturn
	CntFaultReaderPause
	CntFaultPeerMisbehave
	CntFaultLatency
	CntFaultStarve
	CntFaultClockJump
	CntProbeSenderZeroWindow
	CntProbeMultiChunk
	CntProbeMultiWindow
	CntProbeLateFrameDisposed
	CntProbeCancelRacedClose
	CntProbeSelectTwoReady
	CntProbeRPCsOverlapped
	CntProbeTunnelEndedWithInflight
	CntProbeRejected
	CntProbeHandlerBlockedAtEnd
	CntProbeTrailersSet
	CntProbeGracefulInflight
	CntProbeEmptyMessage
	CntProbeHeaderOnly
	CntProbeKeyCollision
	CntProbePoolRoundRobin
	CntProbeWaitForReadyBlocked
	CntProbeOverrunRefused
	CntProbeDeadlineFired
	CntSlowCloseCallback
	numCounters
)

// CounterNames maps counter indexes to evidence keys.
var CounterNames = [...]string{
	CntCarrierBackpressure:          "probe.carrier_backpressure",
	CntBuggifySendStall:             "fault.buggify_send_stall",
	CntFaultBreak:                   "fault.carrier_break",
	CntFaultCancelRPC:               "fault.rpc_cancel",
	CntFaultDeadlineRPC:             "fault.rpc_deadline",
	CntFaultCloseChannel:            "fault.channel_close",
	CntFaultCancelTunnelCtx:         "fault.tunnel_ctx_cancel_or_expire",
	CntFaultStop:                    "fault.reverse_server_stop",
	CntFaultGracefulStop:            "fault.graceful_stop",
	CntFaultInitiateShutdown:        "fault.initiate_shutdown",
	CntFaultHandlerEarlyReturn:      "fault.handler_early_return",
	CntFaultReaderPause:             "fault.reader_pause",
	CntFaultPeerMisbehave:           "fault.peer_misbehaviour",
	CntFaultLatency:                 "fault.latency_profile",
	CntFaultStarve:                  "fault.starved_goroutine",
	CntFaultClockJump:               "fault.clock_jump",
	CntProbeSenderZeroWindow:        "probe.sender_blocked_on_zero_window",
	CntProbeMultiChunk:              "probe.message_multi_chunk",
	CntProbeMultiWindow:             "probe.message_larger_than_window",
	CntProbeLateFrameDisposed:       "probe.frame_for_disposed_stream",
	CntProbeCancelRacedClose:        "probe.cancel_raced_close",
	CntProbeSelectTwoReady:          "probe.select_two_ready",
	CntProbeRPCsOverlapped:          "probe.rpcs_overlapped",
	CntProbeTunnelEndedWithInflight: "probe.tunnel_ended_with_inflight_rpcs",
	CntProbeRejected:                "probe.rpc_rejected_by_server",
	CntProbeHandlerBlockedAtEnd:     "probe.handler_blocked_when_rpc_ended",
	CntProbeTrailersSet:             "probe.trailers_set",
	CntProbeGracefulInflight:        "probe.graceful_with_inflight",
	CntProbeEmptyMessage:            "probe.empty_message",
	CntProbeHeaderOnly:              "probe.header_only_response",
	CntProbeKeyCollision:            "probe.affinity_key_collision",
	CntProbePoolRoundRobin:          "probe.round_robin_phase",
	CntProbeWaitForReadyBlocked:     "probe.wait_for_ready_blocked",
	CntProbeOverrunRefused:          "probe.overrun_refused",
	CntProbeDeadlineFired:           "probe.deadline_fired",
	CntSlowCloseCallback:            "fault.slow_close_callback",
}

// Frame types.
const (
	FNone = iota
	FNewStream
	FReqMsg
	FMoreReq
	FHalfClose
	FCancel
	FWinUpd
	FSettings
	FRespHdr
	FRespMsg
	FMoreResp
	FClose
)

var frameNames = [...]string{"none", "new_stream", "request_message", "more_request_data", "half_close", "cancel", "window_update",
	"settings", "response_headers", "response_message", "more_response_data", "close_stream"}

// FrameInfo is what the wire tap keeps of a frame.
type FrameInfo struct {
	Conn      int
	ToServer  bool // tunnel-level direction: a ClientToServer message
	StreamID  int64
	Type      int
	Size      uint32 // declared message size (envelope)
	DataLen   int
	Window    uint32 // window_update / initial window
	Revision  int32
	Revisions []int32
	Method    string
	Code      int32
	Msg       string
	RPC       int // sim-rpc header of a new_stream (-1 if absent)
	NMD       int // number of metadata keys carried
}

func (f *FrameInfo) String() string {
	d := "s2c"
	if f.ToServer {
		d = "c2s"
	}
	s := fmt.Sprintf("conn%d %s id=%d %s", f.Conn, d, f.StreamID, frameNames[f.Type])
	switch f.Type {
	case FNewStream:
		s += fmt.Sprintf(" method=%q rev=%d win=%d rpc=%d", f.Method, f.Revision, f.Window, f.RPC)
	case FReqMsg, FRespMsg:
		s += fmt.Sprintf(" size=%d data=%d", f.Size, f.DataLen)
	case FMoreReq, FMoreResp:
		s += fmt.Sprintf(" data=%d", f.DataLen)
	case FWinUpd:
		s += fmt.Sprintf(" +%d", f.Window)
	case FSettings:
		s += fmt.Sprintf(" revs=%v win=%d", f.Revisions, f.Window)
	case FClose:
		s += fmt.Sprintf(" code=%d msg=%q", f.Code, f.Msg)
	}
	return s
}

func summarize(c *Conn, dir int, m proto.Message) *FrameInfo {
	fi := &FrameInfo{Conn: c.ID, RPC: -1}
	switch m := m.(type) {
	case *tunnelpb.ClientToServer:
		fi.ToServer = true
		fi.StreamID = m.StreamId
		switch f := m.Frame.(type) {
		case *tunnelpb.ClientToServer_NewStream:
			fi.Type = FNewStream
			if f.NewStream != nil {
				fi.Method = f.NewStream.MethodName
				fi.Revision = int32(f.NewStream.ProtocolRevision)
				fi.Window = f.NewStream.InitialWindowSize
				if f.NewStream.RequestHeaders != nil {
					fi.NMD = len(f.NewStream.RequestHeaders.Md)
					if v := f.NewStream.RequestHeaders.Md["sim-rpc"]; v != nil && len(v.Val) > 0 {
						fmt.Sscanf(v.Val[0], "%d", &fi.RPC)
					}
				}
			}
		case *tunnelpb.ClientToServer_RequestMessage:
			fi.Type = FReqMsg
			if f.RequestMessage != nil {
				fi.Size = f.RequestMessage.Size
				fi.DataLen = len(f.RequestMessage.Data)
			}
		case *tunnelpb.ClientToServer_MoreRequestData:
			fi.Type = FMoreReq
			fi.DataLen = len(f.MoreRequestData)
		case *tunnelpb.ClientToServer_HalfClose:
			fi.Type = FHalfClose
		case *tunnelpb.ClientToServer_Cancel:
			fi.Type = FCancel
		case *tunnelpb.ClientToServer_WindowUpdate:
			fi.Type = FWinUpd
			fi.Window = f.WindowUpdate
		}
	case *tunnelpb.ServerToClient:
		fi.StreamID = m.StreamId
		switch f := m.Frame.(type) {
		case *tunnelpb.ServerToClient_Settings:
			fi.Type = FSettings
			if f.Settings != nil {
				fi.Window = f.Settings.InitialWindowSize
				for _, r := range f.Settings.SupportedProtocolRevisions {
					fi.Revisions = append(fi.Revisions, int32(r))
				}
			}
		case *tunnelpb.ServerToClient_ResponseHeaders:
			fi.Type = FRespHdr
			if f.ResponseHeaders != nil {
				fi.NMD = len(f.ResponseHeaders.Md)
			}
		case *tunnelpb.ServerToClient_ResponseMessage:
			fi.Type = FRespMsg
			if f.ResponseMessage != nil {
				fi.Size = f.ResponseMessage.Size
				fi.DataLen = len(f.ResponseMessage.Data)
			}
		case *tunnelpb.ServerToClient_MoreResponseData:
			fi.Type = FMoreResp
			fi.DataLen = len(f.MoreResponseData)
		case *tunnelpb.ServerToClient_CloseStream:
			fi.Type = FClose
			if f.CloseStream != nil {
				if f.CloseStream.Status != nil {
					fi.Code = f.CloseStream.Status.Code
					fi.Msg = f.CloseStream.Status.Message
				}
				if f.CloseStream.ResponseTrailers != nil {
					fi.NMD = len(f.CloseStream.ResponseTrailers.Md)
				}
			}
		case *tunnelpb.ServerToClient_WindowUpdate:
			fi.Type = FWinUpd
			fi.Window = f.WindowUpdate
		}
	}
	return fi
}

// Violation is one oracle failure.
type Violation struct {
	Property string            `json:"property"`
	Kind     string            `json:"kind"`
	Msg      string            `json:"msg"`
	Detail   map[string]string `json:"detail,omitempty"`
	Seq      int64             `json:"seq,omitempty"`
}

func (v Violation) Key() string { return v.Property + ":" + v.Kind }

// World is everything that exists in one run.
type World struct {
	bareSet bool // an RPC without any request metadata is in this run ...
	bareID  int  // ... and this is its plan id
	C       *Chooser
	Sim     *simrt.Sim

	mu     sync.Mutex
	connID int

	Plans map[int]*RPCPlan

	RootCtx    context.Context
	RootCancel context.CancelFunc

	violMu sync.Mutex
	Viol   []Violation

	Notes []string

	Tunnels  []*Tunnel
	RevChans []grpctunnel.TunnelChannel
	gates    map[int]*Gate
	gateSeq  int

	frameTriggers []frameTrigger
	frameCount    int

	servers          []serverRef
	rawID            *rawIDState
	shapeCase        *shapeCase
	overrun          *overrunCase
	fuzz             *fuzzCase
	matrix           *matrixCase
	reg              *regState
	settingsCase     *settingsCase
	openDeadline     time.Duration
	nextOpenDeadline time.Duration
	vstreams         map[int]*grpctunnel.VerifStream
	ConnMeta         map[int]ConnMeta
	wire             map[int]*wireConn

	SimCfg       *simrt.Config
	Inconclusive int

	// descriptive configuration of the run (goes to evidence samples / replay files)
	Desc map[string]any
}

func NewWorld(c *Chooser) *World {
	w := &World{C: c, Plans: map[int]*RPCPlan{}, Desc: map[string]any{}, ConnMeta: map[int]ConnMeta{}}
	return w
}

func (w *World) nextConnID() int {
	w.mu.Lock()
	defer w.mu.Unlock()
	id := w.connID
	w.connID++
	return id
}

// Violate records a violation found while the run is in progress (from a
// simulated goroutine). Post-run oracles append to w.Viol directly.
func (w *World) Violate(prop, kind, msg string, detail map[string]string) {
	v := &Violation{Property: prop, Kind: kind, Msg: msg, Detail: detail}
	v.Seq = simrt.Emit(simrt.Event{Kind: EvViolation, S: prop, S2: kind, P: v})
}

// AddViolation is used by post-run oracles.
func (w *World) AddViolation(prop, kind, msg string, detail map[string]string, seq int64) {
	w.Viol = append(w.Viol, Violation{Property: prop, Kind: kind, Msg: msg, Detail: detail, Seq: seq})
}

func sortedKeys[V any](m map[string]V) []string {
	ks := make([]string, 0, len(m))
	for k := range m {
		ks = append(ks, k)
	}
	sort.Strings(ks)
	return ks
}
