package sim

import (
	"fmt"
	"io"

	"google.golang.org/grpc/codes"
	"google.golang.org/protobuf/proto"

	"github.com/jhump/grpctunnel"
	"github.com/jhump/grpctunnel/tunnelpb"

	"verif/simrt"
)

// Family overrun (C06): a peer that overruns the advertised flow-control window
// while the application on the real end is not reading.
//   mode 0: raw client floods request data at the real server
//   mode 1: raw server floods response data at the real client

func init() {
	register(&Family{
		Name:       "overrun",
		Run:        runOverrun,
		Oracles:    []func(*World, *History){OracleC06Overrun, OracleLeak},
		Nontrivial: func(w *World, h *History) bool { return h.Derived["probe.overrun_sent"] > 0 },
	})
}

type overrunCase struct {
	mode         int
	excess       int
	victimCode   int32
	victimClosed bool
	maxQueued    int
	rc           *RawClient
	bystanderOK  bool
	probeOK      bool
	done         bool
	callerErr    error
	withCredit   bool
}

func runOverrun(w *World, rs *RunSpec) {
	c := w.C
	mode := rs.P("mode", -1)
	if mode < 0 {
		mode = c.Intn(2, "ovmode")
	}
	oc := &overrunCase{mode: mode}
	w.overrun = oc
	oc.excess = Pick(c, "excess", 1, 2, 100, 16383, 16384, 65536, 3*65536, 16*65536)
	split := Pick(c, "ovchunk", 16384, 16384, 1000, 16384, 60000) // chunk size used by the flooder (60000: also oversize frames)
	midMessage := c.Intn(2, "ovmid") == 1                         // one huge message vs many messages
	readFirst := c.Intn(3, "ovreadfirst")                         // the application reads this many messages before it stops
	cfg := RawCfg{Reverse: c.Intn(2, "rawrev") == 1, Negotiate: true}
	cfg.Carrier = GenCarrier(c)
	cfg.Carrier.LatC2S, cfg.Carrier.LatS2C = 0, 0
	w.Desc["mode"] = [...]string{"raw-client-floods-server", "raw-server-floods-client"}[mode]
	w.Desc["excess_bytes"] = oc.excess
	w.Desc["flood_chunk"] = split
	w.Desc["one_message"] = midMessage
	w.Desc["app_reads_first"] = readFirst
	w.Desc["raw"] = fmt.Sprintf("reverse=%v", cfg.Reverse)
	w.Desc["carrier"] = cfg.Carrier.String()
	const W = 65536
	total := W + oc.excess
	// the flood as a list of (envelope?, data) frames
	type fr struct {
		first bool
		size  uint32
		n     int
	}
	var flood []fr
	if midMessage {
		for off := 0; off < total; off += split {
			n := split
			if off+n > total {
				n = total - off
			}
			flood = append(flood, fr{first: off == 0, size: uint32(total), n: n})
		}
	} else {
		for off := 0; off < total; off += split {
			n := split
			if off+n > total {
				n = total - off
			}
			flood = append(flood, fr{first: true, size: uint32(n), n: n})
		}
	}
	oc.withCredit = readFirst > 0
	// valid message bytes for the flood (so that the receiving application can
	// decode whatever it is handed before the RPC fails)
	var floodData []byte
	if midMessage {
		floodData = validMessageOfSize(total)
	}
	dataFor := func(i int, f fr) []byte {
		if midMessage {
			off := 0
			for j := 0; j < i; j++ {
				off += flood[j].n
			}
			return floodData[off : off+f.n]
		}
		return validMessageOfSize(f.n)
	}
	switch mode {
	case 0:
		victim := rawPlan(w, 0, ShapeClientStream)
		// the handler reads a few small messages, then stops reading until released
		var hops []Op
		for i := 0; i < readFirst; i++ {
			hops = append(hops, Op{Kind: OpRecv})
		}
		hops = append(hops, Op{Kind: OpPause, N: 820}, Op{Kind: OpRecvAll}, Op{Kind: OpSend, N: 0}, Op{Kind: OpReturn})
		victim.Handler = hops
		victim.ReqSizes = nil
		by := rawPlan(w, 1, ShapeUnary)
		script := func(rc *RawClient) {
			oc.rc = rc
			rc.WaitFor(rc.HaveSettings)
			rev := tunnelpb.ProtocolRevision_REVISION_ONE
			// a bystander in flight (its handler parks) and the victim
			by.Handler = []Op{{Kind: OpRecv}, {Kind: OpPause, N: 821}, {Kind: OpSend, N: 0}, {Kind: OpReturn}}
			rc.Send(FNew(1, "/sim.Test/Unary", 1, rev, W, nil))
			rc.SendMessage(1, RequestBytes(1, 0, by.ReqSizes[0]), 0)
			rc.Send(FHalf(1))
			rc.Send(FNew(2, "/sim.Test/ClientStream", 0, rev, W, nil))
			for i := 0; i < readFirst; i++ {
				rc.SendMessage(2, RequestBytes(0, i, 20), 0)
			}
			// let the handler consume those (genuine credit comes back)
			simrt.Emit(simrt.Event{Kind: EvCheckpoint, S: "overrun-begin"})
			simrt.Count(CntFaultPeerMisbehave, 1)
			for i, f := range flood {
				if f.first {
					rc.Send(FMsg(2, f.size, dataFor(i, f)))
				} else {
					rc.Send(FMore(2, dataFor(i, f)))
				}
				if rc.Ended {
					break
				}
			}
			rc.WaitFor(func() bool { ok, _, _ := rc.Closed(2); return ok })
			oc.victimClosed, oc.victimCode, _ = rc.Closed(2)
			simrt.Emit(simrt.Event{Kind: EvCheckpoint, S: "overrun-end"})
			// how much does the server hold for the victim?
			if vs := w.vstreamOf(0); vs != nil {
				oc.maxQueued = vs.QueuedBytes()
			}
			w.OpenGate(821)
			rc.WaitFor(func() bool { ok, _, _ := rc.Closed(1); return ok })
			ok, code, _ := rc.Closed(1)
			oc.bystanderOK = ok && code == 0
			// a probe stream
			p := rawPlan(w, 60, ShapeUnary)
			rc.Send(FNew(9, "/sim.Test/Unary", 60, rev, W, nil))
			rc.SendMessage(9, RequestBytes(60, 0, p.ReqSizes[0]), 0)
			rc.Send(FHalf(9))
			rc.WaitFor(func() bool { ok, _, _ := rc.Closed(9); return ok })
			ok, code, _ = rc.Closed(9)
			oc.probeOK = ok && code == 0
			oc.done = true
			w.OpenGate(820)
			rc.Hangup()
		}
		w.OpenRawClient(cfg, script)
		w.DrainAndProbe()
	case 1:
		// the real client calls a server-streaming method and does not read
		victim := GenPlan(c, 0, GenOpts{Shapes: []int{ShapeServerStream}, MaxMsgs: 1, SmallOnly: true, NoMD: true})
		victim.Role = "raw"
		victim.ReqSizes = []int{5}
		var rops []Op
		for i := 0; i < readFirst; i++ {
			rops = append(rops, Op{Kind: OpRecv})
		}
		rops = append(rops, Op{Kind: OpPause, N: 820}, Op{Kind: OpRecvAll})
		victim.CallerRecv = rops
		by := GenPlan(c, 1, GenOpts{Shapes: []int{ShapeUnary}, SmallOnly: true, NoMD: true})
		by.Role = "raw"
		fresh := GenPlan(c, 60, GenOpts{Shapes: []int{ShapeUnary}, SmallOnly: true, NoMD: true})
		fresh.Role = "raw"
		flooded := false
		// The window in the settings is the raw server's own (what the client
		// may send); it says nothing about the window the client announced for
		// the responses, which stays 64 KiB and is what the flood overruns.
		setWin := Pick(c, "setwin", uint32(W), uint32(W), uint32(1<<20), uint32(1<<24), uint32(8192))
		w.Desc["settings_window"] = setWin
		script := func(rsv *RawServer) {
			rsv.Send(SSettings(-1, setWin, tunnelpb.ProtocolRevision_REVISION_ZERO, tunnelpb.ProtocolRevision_REVISION_ONE))
			served := map[int64]bool{}
			for {
				progressed := false
				for _, ns := range rsv.NewStreams() {
					sid := ns.StreamId
					if served[sid] {
						continue
					}
					nsf := ns.Frame.(*tunnelpb.ClientToServer_NewStream).NewStream
					if !rsv.HalfClosed(sid) {
						continue
					}
					served[sid] = true
					progressed = true
					rsv.Send(SHeaders(sid, nil))
					if nsf.MethodName == "/sim.Test/ServerStream" {
						for i := 0; i < readFirst; i++ {
							rsv.SendMessage(sid, ResponseBytes(0, i, victim.respSize(i)), 0)
						}
						simrt.Emit(simrt.Event{Kind: EvCheckpoint, S: "overrun-begin"})
						simrt.Count(CntFaultPeerMisbehave, 1)
						for i, f := range flood {
							if f.first {
								rsv.Send(SMsg(sid, f.size, dataFor(i, f)))
							} else {
								rsv.Send(SMore(sid, dataFor(i, f)))
							}
						}
						flooded = true
						simrt.Emit(simrt.Event{Kind: EvCheckpoint, S: "overrun-end"})
					} else {
						rpc := 1
						if v := nsf.RequestHeaders.GetMd()["sim-rpc"]; v != nil && len(v.Val) > 0 {
							fmt.Sscanf(v.Val[0], "%d", &rpc)
						}
						pl := w.Plans[rpc]
						rsv.SendMessage(sid, ResponseBytes(rpc, 0, pl.respSize(0)), 0)
						rsv.Send(SClose(sid, 0, ""))
					}
				}
				if rsv.Ended {
					return
				}
				if !progressed {
					rsv.WaitNew(func() bool {
						for _, ns := range rsv.NewStreams() {
							if !served[ns.StreamId] && rsv.HalfClosed(ns.StreamId) {
								return true
							}
						}
						return false
					})
				}
			}
		}
		victim.RespSizes = make([]int, readFirst)
		for i := range victim.RespSizes {
			victim.RespSizes[i] = 20
		}
		_, t, err := w.OpenRawServer(cfg, script)
		if err != nil {
			return
		}
		if cfg.Reverse {
			simrt.AwaitStall()
			if len(w.RevChans) == 0 {
				return
			}
			t.Chan = w.RevChans[0]
		}
		victim.Tunnel, by.Tunnel, fresh.Tunnel = t.Idx, t.Idx, t.Idx
		vcs := w.StartCallers([]*RPCPlan{victim})
		simrt.AwaitStall() // the flood has been delivered; the victim's reader is parked
		_ = flooded
		bcs := w.StartCallers([]*RPCPlan{by})
		bcs.Wait()
		fcs := w.StartCallers([]*RPCPlan{fresh})
		fcs.Wait()
		oc.done = true
		w.OpenGate(820)
		vcs.Wait()
		w.DrainAndProbe()
		if t.Chan != nil {
			t.Chan.Close()
		}
	}
	w.OpenGate(820)
	w.OpenGate(821)
	w.FullShutdown()
}

func (p *RPCPlan) respSize(i int) int {
	if i < len(p.RespSizes) {
		return p.RespSizes[i]
	}
	return 0
}

// vstreamOf returns the accessor of the server-side stream that serves rpc.
//
//go:norace
func (w *World) vstreamOf(rpc int) *grpctunnel.VerifStream {
	w.mu.Lock()
	defer w.mu.Unlock()
	return w.vstreams[rpc]
}

// OracleC06Overrun: the receiver never buffers more than its window; the
// overrunning RPC fails with ResourceExhausted; everything else continues.
func OracleC06Overrun(w *World, h *History) {
	oc := w.overrun
	if oc == nil || !oc.done {
		return
	}
	h.Derived["probe.overrun_sent"]++
	det := map[string]string{"mode": fmt.Sprint(w.Desc["mode"])}
	switch oc.mode {
	case 0:
		if oc.maxQueued > 65536 {
			w.AddViolation("C06", "receiver-overbuffered", fmt.Sprintf("the server buffers %d bytes for the overrun stream; it advertised a window of 65536", oc.maxQueued), det, 0)
		}
		if !oc.victimClosed {
			w.AddViolation("C06", "overrun-not-refused", fmt.Sprintf("the peer overran the window by %d bytes; the RPC was not ended", oc.excess), det, 0)
		} else if codes.Code(oc.victimCode) != codes.ResourceExhausted {
			w.AddViolation("C06", "overrun-wrong-status", fmt.Sprintf("the peer overran the window by %d bytes; the RPC ended with %v instead of ResourceExhausted", oc.excess, codes.Code(oc.victimCode)), det, 0)
		} else {
			h.Derived["probe.overrun_refused"]++
		}
		if !oc.bystanderOK || !oc.probeOK {
			w.AddViolation("C06", "overrun-collateral", fmt.Sprintf("after the overrun the in-flight bystander completed OK=%v and a fresh RPC completed OK=%v (tunnel ended: %v)", oc.bystanderOK, oc.probeOK, oc.rc.RecvErr), det, 0)
		}
	case 1:
		v := h.RPCs[0]
		if v == nil {
			return
		}
		term := v.Terminal()
		if term == nil {
			w.AddViolation("C06", "overrun-not-refused", "the peer overran the client's window; the caller never got a terminal result", det, 0)
		} else if term.Res.Err == nil || term.Res.Err == io.EOF || term.Res.Code != codes.ResourceExhausted {
			w.AddViolation("C06", "overrun-wrong-status", fmt.Sprintf("the peer overran the client's window by %d bytes; the caller's RPC ended with %v instead of ResourceExhausted", oc.excess, term.Res.Err), det, term.Ret)
		} else {
			h.Derived["probe.overrun_refused"]++
		}
		for _, id := range []int{1, 60} {
			r := h.RPCs[id]
			if r == nil {
				continue
			}
			t2 := r.Terminal()
			if t2 == nil || t2.Res.Err != nil {
				var e error
				if t2 != nil {
					e = t2.Res.Err
				}
				w.AddViolation("C06", "overrun-collateral", fmt.Sprintf("after the overrun rpc %d on the same tunnel did not complete OK: %v", id, e), det, 0)
			}
		}
	}
}

// validMessageOfSize returns a serialised BytesValue of exactly n bytes (n of
// 1 or 2 cannot be hit exactly; the nearest valid encoding is padded with an
// unknown varint field, which decoders skip).
func validMessageOfSize(n int) []byte {
	if n == 0 {
		return nil
	}
	if l, ok := ValueLenForSerialized(n); ok {
		b, _ := proto.Marshal(bytesValue(make([]byte, l)))
		return b
	}
	// field 15, varint: 0x78 0x00 ; field 15 one byte only cannot be valid, so
	// for n==1 fall back to a single (invalid) byte: it is never decoded alone
	switch n {
	case 1:
		return []byte{0x78}
	case 2:
		return []byte{0x78, 0x00}
	}
	b, _ := proto.Marshal(bytesValue(make([]byte, 1)))
	for len(b) < n {
		b = append(b, 0x78, 0x00)
	}
	return b[:n]
}
