package sim

import (
	"fmt"
	"io"
	"time"

	"google.golang.org/grpc/codes"
	"google.golang.org/grpc/metadata"

	"verif/simrt"
)

// Family msgflow (C01): concurrent RPCs of all shapes with boundary-biased
// message sizes over every topology / flow-control configuration / carrier
// capacity, with per-RPC terminations and tunnel-level faults.

func init() {
	register(&Family{
		Name:    "msgflow",
		Run:     runMsgflow,
		Oracles: []func(*World, *History){OracleC01, OracleLeak},
		Nontrivial: func(w *World, h *History) bool {
			return h.Derived["probe.rpcs_overlapped"] > 0 || h.Derived["probe.message_multi_chunk"] > 0
		},
	})
}

func drawTunnelCfg(c *Chooser, thoroughTopos bool) TunnelCfg {
	cfg := TunnelCfg{}
	switch k := c.Intn(10, "topo"); {
	case k < 4:
		cfg.Topo = TopoForward
	case k < 7:
		cfg.Topo = TopoReverse
	case k == 7:
		cfg.Topo = TopoFwdInFwd
	case k == 8:
		cfg.Topo = TopoFwdInRev
	default:
		cfg.Topo = TopoRevInFwd
	}
	switch k := c.Intn(8, "fc"); {
	case k < 4:
		cfg.FC = FCBoth
	case k == 4:
		cfg.FC = FCClientDisabled
	case k == 5:
		cfg.FC = FCServerDisabled
	case k == 6:
		cfg.FC = FCBothDisabled
	default:
		cfg.FC = FCLegacy
	}
	cfg.Carrier = GenCarrier(c)
	cfg.OpenMD = metadata.Pairs("tun-md", fmt.Sprintf("v%d", c.Intn(1000, "tunmd")))
	return cfg
}

func describeTunnel(w *World, cfg TunnelCfg) {
	w.Desc["topology"] = topoNames[cfg.Topo]
	w.Desc["flow_control"] = fcNames[cfg.FC]
	w.Desc["carrier"] = cfg.Carrier.String()
}

func runMsgflow(w *World, rs *RunSpec) {
	c := w.C
	thorough := rs.Tier == "thorough"
	cfg := drawTunnelCfg(c, thorough)
	describeTunnel(w, cfg)
	t, err := w.OpenTunnel(cfg)
	if err != nil {
		w.Violate("C11", "shape-failed", "tunnel could not be established in a workable configuration: "+err.Error(),
			map[string]string{"topology": topoNames[cfg.Topo], "fc": fcNames[cfg.FC]})
		return
	}
	maxRPC := 5
	opts := GenOpts{MaxMsgs: 6, ByteBudget: 200000}
	if thorough {
		maxRPC = 8
		opts.MaxMsgs = 12
		opts.ByteBudget = 600000
		if c.Intn(20, "bigrun") == 0 {
			opts.Big = true
			opts.ByteBudget = 9 << 20
			maxRPC = 2
		}
	}
	n := 1 + c.Intn(maxRPC, "nrpc")
	var plans []*RPCPlan
	var descs []any
	for i := 0; i < n; i++ {
		p := GenPlan(c, i, opts)
		p.Tunnel = t.Idx
		drawTermination(c, p)
		plans = append(plans, p)
		descs = append(descs, planDesc(p))
	}
	w.Desc["rpcs"] = descs
	// tunnel-level fault at a frame boundary
	if c.Intn(5, "tfault") == 4 {
		k := 1 + c.Intn(60, "tfaultk")
		kind := c.Intn(3, "tfaultkind")
		w.Desc["tunnel_fault"] = fmt.Sprintf("%s at frame %d", [...]string{"close", "break", "cancel-open-ctx"}[kind], k)
		switch kind {
		case 0:
			w.AtFrame(k, "channel-close", func() { simrt.Count(CntFaultCloseChannel, 1); t.Chan.Close() })
		case 1:
			w.AtFrame(k, "carrier-break", func() { simrt.Count(CntFaultBreak, 1); outermost(t).Conn.Break("fault") })
		case 2:
			w.AtFrame(k, "cancel-open-ctx", func() { simrt.Count(CntFaultCancelTunnelCtx, 1); t.OpenCancel() })
		}
	}
	cs := w.StartCallers(plans)
	cs.Wait()
	w.DrainAndProbe()
	w.FullShutdown()
}

// Drain waits until nothing is runnable and no timer will change that, and marks
// the history (the wire monitor and the leak accounting use the mark).
func (w *World) Drain() {
	simrt.AwaitStall()
	simrt.Emit(simrt.Event{Kind: EvCheckpoint, S: "drained"})
}

func outermost(t *Tunnel) *Tunnel {
	for t.Outer != nil {
		t = t.Outer
	}
	return t
}

// drawTermination decides how an RPC ends (value 0 = normally).
func drawTermination(c *Chooser, p *RPCPlan) {
	switch c.Intn(8, "term") {
	case 5: // caller cancels around one of its receive-side ops
		if p.Shape == ShapeUnary {
			p.Deadline = time.Duration(1+c.Intn(50, "dl")) * time.Millisecond
			p.Handler = append([]Op{{Kind: OpSleep, D: time.Duration(c.Intn(100, "hsleep")) * time.Millisecond}}, p.Handler...)
			return
		}
		p.CancelAfter.Actor = Pick(c, "cactor", "cs", "cr")
		p.CancelAfter.Idx = 0
		p.CancelAfter.Before = c.Intn(2, "cbefore") == 1
		if p.CancelAfter.Actor == "cr" {
			// turn the receive script into single steps so that the cancel can fall between messages
			var ops []Op
			for i := 0; i < len(p.RespSizes); i++ {
				ops = append(ops, Op{Kind: OpRecv})
			}
			ops = append(ops, Op{Kind: OpRecvAll})
			p.CallerRecv = ops
			p.CancelAfter.Idx = c.Intn(len(ops), "cidx")
		} else {
			var ops []Op
			for i := 0; i < len(p.ReqSizes); i++ {
				ops = append(ops, Op{Kind: OpSend, N: i})
			}
			ops = append(ops, Op{Kind: OpCloseSend})
			p.CallerSend = ops
			p.CancelAfter.Idx = c.Intn(len(ops), "cidx")
		}
	case 6: // deadline while the handler dawdles
		p.Deadline = time.Duration(1+c.Intn(50, "dl")) * time.Millisecond
		at := c.Intn(len(p.Handler)+1, "hsleepat")
		ops := append([]Op{}, p.Handler[:at]...)
		ops = append(ops, Op{Kind: OpSleep, D: time.Duration(c.Intn(100, "hsleep")) * time.Millisecond})
		ops = append(ops, p.Handler[at:]...)
		p.Handler = ops
	case 7: // handler returns an error early
		at := c.Intn(len(p.Handler), "hretat")
		st := GenStatus(c)
		ops := append([]Op{}, p.Handler[:at]...)
		ops = append(ops, Op{Kind: OpReturn, St: st})
		p.Handler = ops
		p.HandlerSend = nil
	}
}

// Shutdown closes every tunnel and releases the harness.
func (w *World) Shutdown() {
	for i := len(w.Tunnels) - 1; i >= 0; i-- {
		t := w.Tunnels[i]
		if t.Chan != nil && t.RevServer == nil {
			t.Chan.Close()
		}
		if t.Sibling != nil {
			t.Sibling.Close()
			t.SiblingCancel()
		}
		if t.RevServer != nil {
			t.RevServer.Stop()
		}
		if t.OpenCancel != nil {
			t.OpenCancel()
		}
	}
	w.RootCancel()
}

// ---- oracle C01 --------------------------------------------------------------

// OracleC01: per RPC and direction, what was received is a prefix of what was
// sent, byte for byte, and complete when the receiving side was told the RPC
// ended normally.
func OracleC01(w *World, h *History) {
	overl := 0
	for _, id := range h.RPCIDs {
		r := h.RPCs[id]
		p := r.Plan
		if p == nil || p.Role == "raw" {
			continue // one end of a raw-peer RPC is a script, not an application
		}
		if len(r.Handlers) > 0 {
			overl++
		}
		// ---- requests: caller -> handler
		sends := r.OpsOf(OpSend, "cs", "cr", "c")
		if inv := r.OpsOf(OpInvoke, "c"); len(inv) > 0 {
			sends = inv // unary Invoke: one request
		}
		recvs := r.OpsOf(OpRecv, "h", "hs")
		checkDirection(w, h, r, "request", sends, recvs, p.ReqSizes, func() (bool, int64) {
			// handler told "ended normally": a Recv returned io.EOF
			for _, o := range recvs {
				if o.Returned() && o.Res.Err == io.EOF {
					return true, o.Ret
				}
			}
			return false, 0
		})
		// ---- responses: handler -> caller
		hsends := r.OpsOf(OpSend, "h", "hs")
		crecvs := r.OpsOf(OpRecv, "cr", "c")
		if p.Shape == ShapeUnary && !p.UnaryViaStream {
			// a successful Invoke is both "one message received" and "told OK"
			crecvs = nil
			for _, o := range r.OpsOf(OpInvoke, "c") {
				if o.OK() {
					crecvs = append(crecvs, o)
				}
			}
			checkDirection(w, h, r, "response", hsends, crecvs, nil, func() (bool, int64) {
				for _, o := range crecvs {
					return true, o.Ret
				}
				return false, 0
			})
			continue
		}
		checkDirection(w, h, r, "response", hsends, crecvs, p.RespSizes, func() (bool, int64) {
			for _, o := range crecvs {
				// told "ended normally": io.EOF, or the single successful
				// RecvMsg of a call whose response is not streamed
				if o.Returned() && (o.Res.Err == io.EOF || (o.Res.Err == nil && o.Res.Terminal)) {
					return true, o.Ret
				}
			}
			return false, 0
		})
	}
	if overl >= 2 {
		h.Derived["probe.rpcs_overlapped"]++
	}
	for _, f := range h.Frames {
		if f.Info != nil && (f.Info.Type == FMoreReq || f.Info.Type == FMoreResp) {
			h.Derived["probe.message_multi_chunk"]++
			break
		}
	}
}

func checkDirection(w *World, h *History, r *RPCHist, dir string, sends, recvs []*OpRec, sizes []int, toldNormal func() (bool, int64)) {
	d := 0
	if dir == "response" {
		d = 1
	}
	_ = d
	k := 0
	sendCur := 0
	for _, o := range recvs {
		if !o.OK() {
			continue
		}
		// number of sends invoked before this receive returned (both lists are in
		// sequence order: advance a cursor)
		for sendCur < len(sends) && sends[sendCur].Inv < o.Ret {
			sendCur++
		}
		invoked := sendCur
		det := map[string]string{"direction": dir, "shape": shapeNames[r.Plan.Shape]}
		if k >= invoked {
			det["got_len"] = fmt.Sprint(o.Res.Len)
			w.AddViolation("C01", "fabricated-message", fmt.Sprintf("rpc %d %s: receive #%d returned a message (len %d) but only %d had been submitted",
				r.ID, dir, k, o.Res.Len, invoked), det, o.Ret)
			return
		}
		exp := -1
		if k < len(sends) {
			exp = sends[k].Size
		}
		if !o.Res.Match || (exp >= 0 && o.Res.Len != exp) {
			w.AddViolation("C01", "not-prefix", fmt.Sprintf("rpc %d %s: message #%d differs from what was sent (len %d, expected len %d, content match=%v, first bytes %x)",
				r.ID, dir, k, o.Res.Len, exp, o.Res.Match, o.Res.Got), det, o.Ret)
			return
		}
		k++
	}
	if told, at := toldNormal(); told {
		acked := 0
		for _, s := range sends {
			if s.OK() && s.Ret < at {
				acked++
			}
		}
		if k < acked {
			w.AddViolation("C01", "incomplete-at-normal-end", fmt.Sprintf("rpc %d %s: receiver was told the RPC ended normally after %d messages, but %d sends had succeeded",
				r.ID, dir, k, acked), map[string]string{"direction": dir, "shape": shapeNames[r.Plan.Shape]}, at)
		}
	}
	_ = codes.OK
}
