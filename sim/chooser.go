package sim

import (
	"math/rand/v2"
)

// Chooser is the single source of every decision in a run (DESIGN.md 2.5).
// Search mode: a PCG seeded from (VERIF_SEED, run index) that records every
// value. Replay mode: plays back a recorded list; past its end (or for an
// out-of-range value) it answers deterministically from the value at hand.
// It never reads a clock and logging never draws from it.
type Chooser struct {
	rng       *rand.Rand
	replay    []uint32
	pos       int
	replaying bool
	rec       []uint32
	nrec      int
}

const maxChoices = 1 << 22

// NewChooser returns a search-mode chooser.
func NewChooser(seed, run uint64) *Chooser {
	return &Chooser{rng: rand.New(rand.NewPCG(seed, run*0x9E3779B97F4A7C15+1)), rec: make([]uint32, 1<<16)}
}

// NewReplayChooser returns a replay-mode chooser.
func NewReplayChooser(list []uint32) *Chooser {
	return &Chooser{replay: list, replaying: true, rec: make([]uint32, len(list)+1024)}
}

// Intn returns a value in [0,n).
//
//go:norace
func (c *Chooser) Intn(n int, label string) int {
	if n <= 1 {
		return 0
	}
	var v int
	if c.replaying {
		if c.pos < len(c.replay) {
			v = int(c.replay[c.pos]) % n
			c.pos++
		} else {
			v = 0
		}
	} else {
		v = c.rng.IntN(n)
	}
	if c.nrec < maxChoices {
		if c.nrec >= len(c.rec) {
			// grow by doubling with a manual copy loop (no runtime helpers
			// that would report accesses on behalf of a norace caller)
			nr := make([]uint32, 2*len(c.rec))
			for i := 0; i < c.nrec; i++ {
				nr[i] = c.rec[i]
			}
			c.rec = nr
		}
		c.rec[c.nrec] = uint32(v)
		c.nrec++
	}
	return v
}

// Recorded returns the choices made so far.
func (c *Chooser) Recorded() []uint32 {
	out := make([]uint32, c.nrec)
	copy(out, c.rec[:c.nrec])
	return out
}

// Pick returns one of the given values.
func Pick[T any](c *Chooser, label string, vals ...T) T {
	return vals[c.Intn(len(vals), label)]
}

// Pct reports true with probability p percent.
func (c *Chooser) Pct(p int, label string) bool {
	return c.Intn(100, label) < p
}

// Range returns a value in [lo,hi].
func (c *Chooser) Range(lo, hi int, label string) int {
	if hi <= lo {
		return lo
	}
	return lo + c.Intn(hi-lo+1, label)
}
