package sim

import (
	"math/bits"
)

// Chooser is the single source of every decision in a run (DESIGN.md 2.5).
// Search mode: a PCG seeded from (VERIF_SEED, run index) that records every
// value. Replay mode: plays back a recorded list; past its end (or for an
// out-of-range value) it answers deterministically from the value at hand.
// It never reads a clock and logging never draws from it.
type Chooser struct {
	// splitmix64 state: the generator lives here (not math/rand) because the
	// chooser is called from every simulated goroutine and from the scheduler,
	// and in the -race build only //go:norace code may touch shared state
	// without adding or needing happens-before edges
	s0        uint64
	replay    []uint32
	pos       int
	replaying bool
	rec       []uint32
	nrec      int
}

const maxChoices = 1 << 22

// NewChooser returns a search-mode chooser.
func NewChooser(seed, run uint64) *Chooser {
	return &Chooser{s0: seed*0xD1342543DE82EF95 ^ (run*0x9E3779B97F4A7C15 + 0x2545F4914F6CDD1D), rec: make([]uint32, 1<<16)}
}

// NewReplayChooser returns a replay-mode chooser.
func NewReplayChooser(list []uint32) *Chooser {
	return &Chooser{replay: list, replaying: true, rec: make([]uint32, len(list)+1024)}
}

// Intn returns a value in [0,n).
//
//go:norace
func (c *Chooser) Intn(n int, label string) int {
	if n <= 1 {
		return 0
	}
	var v int
	if c.replaying {
		if c.pos < len(c.replay) {
			v = int(c.replay[c.pos]) % n
			c.pos++
		} else {
			v = 0
		}
	} else {
		v = c.intn(n)
	}
	if c.nrec < maxChoices {
		if c.nrec >= len(c.rec) {
			// grow by doubling with a manual copy loop (no runtime helpers
			// that would report accesses on behalf of a norace caller)
			nr := make([]uint32, 2*len(c.rec))
			for i := 0; i < c.nrec; i++ {
				nr[i] = c.rec[i]
			}
			c.rec = nr
		}
		c.rec[c.nrec] = uint32(v)
		c.nrec++
	}
	return v
}

//go:norace
func (c *Chooser) next() uint64 {
	c.s0 += 0x9E3779B97F4A7C15
	z := c.s0
	z = (z ^ (z >> 30)) * 0xBF58476D1CE4E5B9
	z = (z ^ (z >> 27)) * 0x94D049BB133111EB
	return z ^ (z >> 31)
}

// intn: unbiased (Lemire's multiply-shift with rejection).
//
//go:norace
func (c *Chooser) intn(n int) int {
	un := uint64(n)
	hi, lo := bits.Mul64(c.next(), un)
	if lo < un {
		t := -un % un
		for lo < t {
			hi, lo = bits.Mul64(c.next(), un)
		}
	}
	return int(hi)
}

// Recorded returns the choices made so far.
func (c *Chooser) Recorded() []uint32 {
	out := make([]uint32, c.nrec)
	copy(out, c.rec[:c.nrec])
	return out
}

// Pick returns one of the given values.
func Pick[T any](c *Chooser, label string, vals ...T) T {
	return vals[c.Intn(len(vals), label)]
}

// Pct reports true with probability p percent.
func (c *Chooser) Pct(p int, label string) bool {
	return c.Intn(100, label) < p
}

// Range returns a value in [lo,hi].
func (c *Chooser) Range(lo, hi int, label string) int {
	if hi <= lo {
		return lo
	}
	return lo + c.Intn(hi-lo+1, label)
}
