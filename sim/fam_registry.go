package sim

import (
	"context"
	"fmt"
	"sort"
	"strings"
	"time"

	"github.com/anishathalye/porcupine"
	"google.golang.org/grpc/codes"
	"google.golang.org/grpc/metadata"
	"google.golang.org/grpc/status"
	"google.golang.org/protobuf/types/known/wrapperspb"

	"github.com/jhump/grpctunnel"

	"verif/simrt"
)

// Family registry (C12): reverse tunnels opened and closed over time with
// colliding affinity keys while goroutines route RPCs through the pooled
// channels and query Ready / WaitForReady / AllReverseTunnels.

func init() {
	register(&Family{
		Name:       "registry",
		Run:        runRegistry,
		Oracles:    []func(*World, *History){OracleC12, OracleLeak},
		Nontrivial: func(w *World, h *History) bool { return h.Derived["probe.registry_concurrent_ops"] > 0 },
	})
}

// Registry operation kinds.
const (
	RegOpen = iota + 1
	RegClose
	RegPick
	RegReady
	RegAll
	RegWait
)

var regKeys = []string{"", "a", "b"} // "" = nil affinity key

// regOp is one registry-level operation with its interval.
type regOp struct {
	Kind   int
	Pool   string // "*" = all tunnels, otherwise "k:"+key
	Tunnel int    // Open/Close
	Inv    int64
	Ret    int64
	Got    int    // Pick: tunnel index served (-1 none); Ready: 0/1
	Set    uint64 // All: bitmask
	Client int
	OKFlag bool
	Err    string
}

type regTunnel struct {
	idx      int
	key      string
	t        *Tunnel
	openSeq  int64 // conn open
	cbOpen   int64
	cbClose  int64
	cbOpens  int
	cbCloses int
	endCause int64 // termination cause initiated
	endDone  int64 // accepting side returned
	cause    string
	ch       grpctunnel.TunnelChannel
}

type regState struct {
	h       *grpctunnel.TunnelServiceHandler
	car     *Carrier
	rs      *grpctunnel.ReverseTunnelServer
	tunnels []*regTunnel
	ops     []*regOp
	opKey   byte
	quiesc  []regQuiesce
	rr      []regRR
	// close callbacks of every other tunnel wait here (see OnReverseTunnelClose)
	slowGate chan struct{}
}

type regQuiesce struct {
	seq      int64
	expected uint64          // tunnels expected open
	all      uint64          // AllReverseTunnels
	ready    map[string]bool // pool -> Ready()
	expReady map[string]bool
}

type regRR struct {
	pool  string
	n     int
	picks []int
	seq   int64
}

//go:norace
func (rg *regState) add(o *regOp) *regOp {
	rg.ops = append(rg.ops, o)
	return o
}

func poolOf(key string) string { return "k:" + key }

func keyAny(key string) any {
	if key == "" {
		return nil
	}
	return key
}

func runRegistry(w *World, rs *RunSpec) {
	c := w.C
	rg := &regState{slowGate: make(chan struct{})}
	w.reg = rg
	// the handler: affinity key from the tunnel-opening metadata
	opts := grpctunnel.TunnelServiceHandlerOptions{}
	var tunnelOf func(ch grpctunnel.TunnelChannel) *regTunnel
	opts.AffinityKey = func(ch grpctunnel.TunnelChannel) any {
		md, _ := metadata.FromIncomingContext(ch.Context())
		// The key function of an application need not give the same answer for
		// a tunnel that is on its way out (it may consult the context, or a
		// table the application has already updated): the key a tunnel was
		// registered under is the one it has until it is gone.
		if rt := tunnelOf(ch); (rt != nil && rt.endCause != 0) || ch.Context().Err() != nil {
			if v := md.Get("sim-key"); len(v) > 0 {
				return "gone-" + v[0]
			}
			return "gone"
		}
		if v := md.Get("sim-key"); len(v) > 0 && v[0] != "" {
			return v[0]
		}
		return nil
	}
	tunnelOf = func(ch grpctunnel.TunnelChannel) *regTunnel {
		md, _ := metadata.FromIncomingContext(ch.Context())
		if v := md.Get("sim-tunnel"); len(v) > 0 {
			var i int
			fmt.Sscanf(v[0], "%d", &i)
			if i < len(rg.tunnels) {
				return rg.tunnels[i]
			}
		}
		return nil
	}
	opts.OnReverseTunnelOpen = func(ch grpctunnel.TunnelChannel) {
		if rt := tunnelOf(ch); rt != nil {
			rt.cbOpens++
			rt.ch = ch
			rt.cbOpen = simrt.Emit(simrt.Event{Kind: EvTunnel, S: "rev-open", A: int64(rt.idx)})
		}
	}
	opts.OnReverseTunnelClose = func(ch grpctunnel.TunnelChannel) {
		if rt := tunnelOf(ch); rt != nil {
			rt.cbCloses++
			rt.cbClose = simrt.Emit(simrt.Event{Kind: EvTunnel, S: "rev-close", A: int64(rt.idx)})
			if rt.idx%2 == 1 {
				// a slow close callback: it returns only after the next
				// quiescent point has been examined (the tunnel is closed by
				// then, whatever its callback is doing)
				simrt.Count(CntSlowCloseCallback, 1)
				simrt.Recv(rg.slowGate)
			}
		}
	}
	h := grpctunnel.NewTunnelServiceHandler(opts)
	rg.h = h
	carCfg := GenCarrier(c)
	carCfg.LatC2S, carCfg.LatS2C = 0, 0
	car := &Carrier{W: w, Name: "reg", Svc: h.Service(), Cfg: carCfg, PeerAddr: "peer", Marker: "marker", Meta: ConnMeta{Negotiated: true, FlowControl: true}}
	rg.car = car
	rts := grpctunnel.NewReverseTunnelServer(car)
	rts.RegisterService(&TestDesc, &TestServer{W: w, Name: "reg"})
	rg.rs = rts
	w.Desc["carrier"] = carCfg.String()

	openTunnel := func(key string) *regTunnel {
		rt := &regTunnel{idx: len(rg.tunnels), key: key}
		rg.tunnels = append(rg.tunnels, rt)
		t := &Tunnel{W: w, Idx: len(w.Tunnels), Name: fmt.Sprintf("t%d", len(w.Tunnels)), RevServer: rts, Handler: h, Car: car}
		w.Tunnels = append(w.Tunnels, t)
		rt.t = t
		md := metadata.Pairs("sim-tunnel", fmt.Sprint(rt.idx), "sim-key", key)
		ctx := metadata.NewOutgoingContext(w.RootCtx, md)
		t.OpenCtx, t.OpenCancel = context.WithCancel(ctx)
		rt.openSeq = simrt.Emit(simrt.Event{Kind: EvTunnel, S: "reg-open-begin", A: int64(rt.idx), S2: key})
		before := len(car.Conns)
		simrt.Go("registry.serve", func() {
			started, err := rts.Serve(t.OpenCtx)
			t.ServeStarted, t.ServeErr, t.ServeReturned = started, err, true
			simrt.Emit(simrt.Event{Kind: EvTunnel, S: "serve-return", A: int64(t.Idx), B: b2i(started), S2: errString(err)})
		})
		_ = before
		return rt
	}
	closeTunnel := func(rt *regTunnel, how int) {
		if rt.endCause != 0 {
			return
		}
		names := []string{"ctx-cancel", "channel-close", "carrier-break"}
		rt.cause = names[how]
		rt.endCause = simrt.Emit(simrt.Event{Kind: EvTunnel, S: "reg-close-begin", A: int64(rt.idx), S2: rt.cause})
		switch how {
		case 0:
			rt.t.OpenCancel()
		case 1:
			if rt.ch != nil {
				rt.ch.Close()
			} else {
				rt.t.OpenCancel()
			}
		case 2:
			if c := connOf(car, rt.idx); c != nil {
				c.Break("registry fault")
			} else {
				rt.t.OpenCancel()
			}
		}
	}

	// client goroutines
	nclients := 2 + c.Intn(4, "regclients")
	nops := 4 + c.Intn(10, "regops")
	type cop struct {
		kind int
		pool string
		wait time.Duration
	}
	scripts := make([][]cop, nclients)
	for i := range scripts {
		for j := 0; j < nops; j++ {
			pool := "*"
			if c.Intn(2, "regpoolkind") == 1 {
				pool = poolOf(regKeys[c.Intn(len(regKeys), "regpoolkey")])
			}
			k := Pick(c, "regopkind", RegPick, RegPick, RegReady, RegAll, RegWait)
			scripts[i] = append(scripts[i], cop{kind: k, pool: pool, wait: time.Duration(1+c.Intn(5, "regwait")) * time.Millisecond})
		}
	}
	fresh := func(pool string) grpctunnel.ReverseClientConnInterface {
		if pool == "*" {
			return h.AsChannel()
		}
		return h.KeyAsChannel(keyAny(strings.TrimPrefix(pool, "k:")))
	}
	// Half of the uses go through channel values obtained once, before any
	// tunnel exists, and kept for the whole run (an application that builds its
	// stubs at start-up); the other half ask for the channel each time.
	held := map[string]grpctunnel.ReverseClientConnInterface{}
	for _, pool := range []string{"*", "k:", "k:a", "k:b"} {
		held[pool] = fresh(pool)
	}
	uses := 0
	chanFor := func(pool string) grpctunnel.ReverseClientConnInterface {
		uses++
		if ch := held[pool]; ch != nil && uses%2 == 0 {
			return ch
		}
		return fresh(pool)
	}
	// one routed unary RPC; returns the tunnel that served it (-1: none)
	route := func(pool string, client int) (int, error) {
		req := &wrapperspb.BytesValue{Value: []byte("r")}
		resp := &wrapperspb.BytesValue{}
		var ch grpctunnel.TunnelChannel
		ctx := metadata.AppendToOutgoingContext(w.RootCtx, "sim-rpc", "-7")
		err := chanFor(pool).Invoke(ctx, "/sim.Test/Unary", req, resp, grpctunnel.WithTunnelChannel(&ch))
		if ch == nil {
			return -1, err
		}
		rt := tunnelOf(ch)
		if rt == nil {
			return -2, err
		}
		return rt.idx, err
	}
	doOp := func(client int, o cop) {
		simrt.Yield(simrt.ClassApp)
		op := &regOp{Kind: o.kind, Pool: o.pool, Client: client, Tunnel: -1}
		op.Inv = simrt.Emit(simrt.Event{Kind: EvNote, S: fmt.Sprintf("reg client %d op %d pool %s ->", client, o.kind, o.pool)})
		switch o.kind {
		case RegPick:
			got, err := route(o.pool, client)
			op.Got, op.Err = got, errString(err)
			op.OKFlag = err == nil
		case RegReady:
			if chanFor(o.pool).Ready() {
				op.Got = 1
			}
		case RegAll:
			for _, ch := range h.AllReverseTunnels() {
				if rt := tunnelOf(ch); rt != nil {
					op.Set |= 1 << uint(rt.idx)
				}
			}
		case RegWait:
			ctx, cancel := context.WithTimeout(w.RootCtx, o.wait)
			err := chanFor(o.pool).WaitForReady(ctx)
			cancel()
			op.OKFlag = err == nil
			op.Err = errString(err)
		}
		op.Ret = simrt.Emit(simrt.Event{Kind: EvNote, S: fmt.Sprintf("reg client %d op %d pool %s <- got=%d set=%b ok=%v %s", client, o.kind, o.pool, op.Got, op.Set, op.OKFlag, op.Err)})
		rg.add(op)
	}

	// phases
	nphases := 1 + c.Intn(3, "regphases")
	type mut struct {
		open  bool
		key   string
		which int
		how   int
	}
	phases := make([][]mut, nphases)
	for p := range phases {
		nm := 1 + c.Intn(3, "regmuts")
		for m := 0; m < nm; m++ {
			if c.Intn(3, "regmutkind") != 0 {
				phases[p] = append(phases[p], mut{open: true, key: regKeys[c.Intn(len(regKeys), "regkey")]})
			} else {
				phases[p] = append(phases[p], mut{which: c.Intn(8, "regwhich"), how: c.Intn(3, "reghow")})
			}
		}
	}
	w.Desc["phases"] = fmt.Sprint(phases)
	w.Desc["clients"] = nclients
	quiescent := func() {
		simrt.AwaitStall()
		q := regQuiesce{ready: map[string]bool{}, expReady: map[string]bool{}}
		q.seq = simrt.Emit(simrt.Event{Kind: EvCheckpoint, S: "registry-quiescent"})
		for _, rt := range rg.tunnels {
			if rt.cbOpen != 0 && rt.endCause == 0 {
				q.expected |= 1 << uint(rt.idx)
			}
		}
		for _, ch := range h.AllReverseTunnels() {
			if rt := tunnelOf(ch); rt != nil {
				q.all |= 1 << uint(rt.idx)
			}
		}
		pools := []string{"*"}
		for _, k := range regKeys {
			pools = append(pools, poolOf(k))
		}
		for _, p := range pools {
			q.ready[p] = chanFor(p).Ready()
			n := 0
			for _, rt := range rg.tunnels {
				if q.expected&(1<<uint(rt.idx)) != 0 && (p == "*" || poolOf(rt.key) == p) {
					n++
				}
			}
			q.expReady[p] = n > 0
			// round robin in a stable phase: 2n consecutive RPCs through one pooled channel
			if n > 0 {
				rr := regRR{pool: p, n: n, seq: q.seq}
				for i := 0; i < 2*n; i++ {
					if len(rg.rr)%2 == 1 {
						// the usual guard: asking whether the pool is ready is a
						// query, it must not take a turn
						fresh(p).Ready()
						if ch := held[p]; ch != nil {
							ch.Ready()
						}
					}
					got, _ := route(p, 99)
					rr.picks = append(rr.picks, got)
				}
				rg.rr = append(rg.rr, rr)
			}
		}
		rg.quiesc = append(rg.quiesc, q)
		// let the slow close callbacks return
		g := rg.slowGate
		rg.slowGate = make(chan struct{})
		simrt.Close(g)
		simrt.AwaitStall()
	}
	for p := range phases {
		// clients run concurrently with the mutations of this phase
		done := 0
		var dkey byte
		for ci := 0; ci < nclients; ci++ {
			ci := ci
			lo, hi := p*len(scripts[ci])/nphases, (p+1)*len(scripts[ci])/nphases
			simrt.Go("registry.client", func() {
				for _, o := range scripts[ci][lo:hi] {
					doOp(ci, o)
				}
				simrt.Atomically(func() { done++ })
				simrt.Wake(unsafePtr(&dkey))
			})
		}
		for _, m := range phases[p] {
			simrt.Yield(simrt.ClassApp)
			if m.open {
				if len(rg.tunnels) < 6 {
					openTunnel(m.key)
				}
			} else if len(rg.tunnels) > 0 {
				closeTunnel(rg.tunnels[m.which%len(rg.tunnels)], m.how)
			}
		}
		for done < nclients {
			if !simrt.WaitOrStall(unsafePtr(&dkey)) && done < nclients {
				simrt.Emit(simrt.Event{Kind: EvCheckpoint, S: "registry-clients-stalled", S2: simrt.LiveStacks()})
				break
			}
		}
		quiescent()
	}
	// end: stop the server, everything goes away
	for _, rt := range rg.tunnels {
		if rt.endCause == 0 {
			rt.endCause = simrt.Emit(simrt.Event{Kind: EvTunnel, S: "reg-close-begin", A: int64(rt.idx), S2: "stop"})
			rt.cause = "stop"
		}
	}
	rts.Stop()
	quiescent()
	w.FullShutdown()
}

func connOf(car *Carrier, tunnel int) *Conn {
	for _, c := range car.Conns {
		if v := c.ReqMD.Get("sim-tunnel"); len(v) > 0 && v[0] == fmt.Sprint(tunnel) {
			return c
		}
	}
	return nil
}

// OracleC12: the registry matches the set of open reverse tunnels.
func OracleC12(w *World, h *History) {
	rg := w.reg
	if rg == nil {
		return
	}
	if len(rg.ops) > 0 {
		h.Derived["probe.registry_concurrent_ops"] += int64(len(rg.ops))
	}
	// when did the accepting side return for each tunnel?
	for _, rt := range rg.tunnels {
		if c := connOf(rg.car, rt.idx); c != nil {
			for _, e := range h.ConnEnds[c.ID] {
				if e.S == "server-return" {
					rt.endDone = e.Seq
				}
			}
		}
	}
	// quiescent states
	for _, q := range rg.quiesc {
		if q.all != q.expected {
			w.AddViolation("C12", "registry-mismatch-at-quiescence", fmt.Sprintf("at quiescent point #%d AllReverseTunnels() = %s but the open reverse tunnels are %s", q.seq, maskString(q.all), maskString(q.expected)), nil, q.seq)
		}
		for p, got := range q.ready {
			if got != q.expReady[p] {
				w.AddViolation("C12", "ready-mismatch", fmt.Sprintf("at quiescent point #%d Ready() of pool %s = %v, expected %v (open tunnels %s)", q.seq, p, got, q.expReady[p], maskString(q.expected)), map[string]string{"pool": p}, q.seq)
			}
		}
	}
	// round robin in stable phases
	for _, rr := range rg.rr {
		h.Derived["probe.round_robin_phase"]++
		for i := 0; i+rr.n <= len(rr.picks); i++ {
			seen := map[int]bool{}
			for _, p := range rr.picks[i : i+rr.n] {
				seen[p] = true
			}
			if len(seen) != rr.n || seen[-1] || seen[-2] {
				w.AddViolation("C12", "round-robin-uneven", fmt.Sprintf("with a stable set of %d tunnels in pool %s, consecutive RPCs were served by %v: some window of %d does not use each tunnel exactly once", rr.n, rr.pool, rr.picks, rr.n), map[string]string{"pool": rr.pool}, rr.seq)
				break
			}
		}
	}
	// routing during the chaos phases
	for _, o := range rg.ops {
		if o.Kind != RegPick || o.Got < 0 || o.Got >= len(rg.tunnels) {
			if o.Kind == RegPick && o.Got == -2 {
				w.AddViolation("C12", "routed-wrong-key", "an RPC was carried by a channel that is not one of the reverse tunnels", nil, o.Ret)
			}
			continue
		}
		rt := rg.tunnels[o.Got]
		if o.Pool != "*" && poolOf(rt.key) != o.Pool {
			w.AddViolation("C12", "routed-wrong-key", fmt.Sprintf("an RPC through %s was routed to tunnel %d whose affinity key is %q", o.Pool, rt.idx, rt.key), map[string]string{"pool": o.Pool}, o.Ret)
		}
		if rt.openSeq > o.Ret || (rt.endDone != 0 && rt.endDone < o.Inv) {
			w.AddViolation("C12", "routed-to-closed", fmt.Sprintf("an RPC issued in (#%d,#%d) was routed to tunnel %d, which was open only in (#%d,#%d)", o.Inv, o.Ret, rt.idx, rt.openSeq, rt.endDone), nil, o.Ret)
		}
	}
	// WaitForReady returns nil only if its pool was non-empty at some instant of
	// the call, and times out only if it was empty at some instant
	for _, o := range rg.ops {
		if o.Kind != RegWait {
			continue
		}
		some, throughout := false, false
		for _, rt := range rg.tunnels {
			if o.Pool != "*" && poolOf(rt.key) != o.Pool {
				continue
			}
			if rt.cbOpen == 0 && rt.openSeq == 0 {
				continue
			}
			if rt.openSeq <= o.Ret && (rt.endDone == 0 || rt.endDone >= o.Inv) {
				some = true
			}
			if rt.cbOpen != 0 && rt.cbOpen < o.Inv && (rt.endCause == 0 || rt.endCause > o.Ret) {
				throughout = true
			}
		}
		if o.OKFlag && !some {
			w.AddViolation("C12", "waitforready-wrong", fmt.Sprintf("WaitForReady on pool %s returned nil in (#%d,#%d) although no matching reverse tunnel was open at any instant of the call", o.Pool, o.Inv, o.Ret), map[string]string{"pool": o.Pool, "got": "ready"}, o.Ret)
		}
		if !o.OKFlag && !throughout {
			// Timed out although a matching tunnel had become ready at an
			// earlier virtual instant and stayed open: between the two instants
			// everything was idle (virtual time only advances then), with the
			// pool ready and the waiter still blocked - a lost wake-up.
			tRet := timeOfSeq(h, o.Ret)
			for _, rt := range rg.tunnels {
				if o.Pool != "*" && poolOf(rt.key) != o.Pool {
					continue
				}
				if rt.cbOpen != 0 && rt.cbOpen < o.Ret && (rt.endCause == 0 || rt.endCause > o.Ret) && timeOfSeq(h, rt.cbOpen) < tRet {
					w.AddViolation("C12", "waitforready-wrong", fmt.Sprintf("WaitForReady on pool %s (#%d) timed out at #%d (virtual %v) although tunnel %d had been ready since #%d (virtual %v) and stayed open: the waiter was not woken", o.Pool, o.Inv, o.Ret, tRet, rt.idx, rt.cbOpen, timeOfSeq(h, rt.cbOpen)),
						map[string]string{"pool": o.Pool, "got": "timeout-though-ready-earlier"}, o.Ret)
					break
				}
			}
		}
		if !o.OKFlag && throughout {
			w.AddViolation("C12", "waitforready-wrong", fmt.Sprintf("WaitForReady on pool %s timed out in (#%d,#%d) although a matching reverse tunnel was open during the whole call", o.Pool, o.Inv, o.Ret), map[string]string{"pool": o.Pool, "got": "timeout"}, o.Ret)
		}
	}
	// WaitForReady: at the final quiescent state nothing is left blocked (OracleHung analogue)
	for _, e := range h.Evs {
		if e.Kind == EvCheckpoint && e.S == "registry-clients-stalled" {
			w.AddViolation("C12", "waitforready-stuck", "client operations on the pooled channels had not returned when the run stalled", nil, e.Seq)
		}
	}
	// callbacks: exactly one open followed by exactly one close
	for _, rt := range rg.tunnels {
		if rt.cbOpens > 1 || rt.cbCloses > 1 || (rt.cbOpens == 1 && rt.cbCloses != 1) || (rt.cbOpens == 0 && rt.cbCloses != 0) || (rt.cbClose != 0 && rt.cbClose < rt.cbOpen) {
			w.AddViolation("C12", "callback-count", fmt.Sprintf("tunnel %d: %d open callbacks (#%d), %d close callbacks (#%d)", rt.idx, rt.cbOpens, rt.cbOpen, rt.cbCloses, rt.cbClose), nil, rt.cbClose)
		}
	}
	// linearizability of each pool against a sequential set model
	pools := []string{"*"}
	for _, k := range regKeys {
		pools = append(pools, poolOf(k))
	}
	for _, p := range pools {
		var ops []porcupine.Operation
		for _, rt := range rg.tunnels {
			if p != "*" && poolOf(rt.key) != p {
				continue
			}
			if rt.cbOpen == 0 {
				continue // never came up
			}
			ops = append(ops, porcupine.Operation{ClientId: 100 + rt.idx, Input: regIn{RegOpen, rt.idx}, Call: rt.openSeq, Output: regOut{}, Return: rt.cbOpen})
			end := rt.endDone
			if end == 0 {
				end = 1 << 60
			}
			start := rt.endCause
			if start == 0 || start > end {
				start = rt.cbOpen + 0
			}
			ops = append(ops, porcupine.Operation{ClientId: 200 + rt.idx, Input: regIn{RegClose, rt.idx}, Call: start, Output: regOut{}, Return: end})
		}
		n := 0
		for _, o := range rg.ops {
			if o.Pool != p {
				continue
			}
			switch o.Kind {
			case RegPick:
				if o.Got >= 0 || (o.Got == -1 && status.Code(errOf(o.Err)) == codes.Unavailable || strings.Contains(o.Err, "no channels ready")) {
					ops = append(ops, porcupine.Operation{ClientId: o.Client, Input: regIn{RegPick, 0}, Call: o.Inv, Output: regOut{got: o.Got}, Return: o.Ret})
					n++
				}
			case RegReady:
				ops = append(ops, porcupine.Operation{ClientId: o.Client, Input: regIn{RegReady, 0}, Call: o.Inv, Output: regOut{got: o.Got}, Return: o.Ret})
				n++
			case RegAll:
				if p == "*" {
					ops = append(ops, porcupine.Operation{ClientId: o.Client, Input: regIn{RegAll, 0}, Call: o.Inv, Output: regOut{set: o.Set}, Return: o.Ret})
					n++
				}
			case RegWait:
				g := 0
				if o.OKFlag {
					g = 1
				}
				ops = append(ops, porcupine.Operation{ClientId: o.Client, Input: regIn{RegWait, 0}, Call: o.Inv, Output: regOut{got: g}, Return: o.Ret})
				n++
			}
		}
		if n == 0 || len(ops) > 80 {
			continue
		}
		res := porcupine.CheckOperationsTimeout(regModel, ops, 3*time.Second)
		switch res {
		case porcupine.Illegal:
			var desc []string
			sort.Slice(ops, func(i, j int) bool { return ops[i].Call < ops[j].Call })
			for _, o := range ops {
				desc = append(desc, fmt.Sprintf("[%d,%d] c%d %v -> %v", o.Call, o.Return, o.ClientId, o.Input, o.Output))
			}
			w.AddViolation("C12", "porcupine-illegal", fmt.Sprintf("the history of pool %s is not linearizable against the sequential set model: %s", p, strings.Join(desc, "; ")), map[string]string{"pool": p}, 0)
		case porcupine.Unknown:
			w.Inconclusive++
		default:
			h.Derived["probe.porcupine_ok"]++
		}
	}
}

type regIn struct {
	kind   int
	tunnel int
}

type regOut struct {
	got int
	set uint64
}

// regModel: state = bitmask of registered tunnels.
var regModel = porcupine.Model{
	Init: func() interface{} { return uint64(0) },
	Step: func(state, input, output interface{}) (bool, interface{}) {
		s := state.(uint64)
		in := input.(regIn)
		out := output.(regOut)
		switch in.kind {
		case RegOpen:
			return true, s | 1<<uint(in.tunnel)
		case RegClose:
			return true, s &^ (1 << uint(in.tunnel))
		case RegPick:
			if out.got < 0 {
				return s == 0, s
			}
			return s&(1<<uint(out.got)) != 0, s
		case RegReady:
			return (out.got == 1) == (s != 0), s
		case RegAll:
			return out.set == s, s
		case RegWait:
			// nil: the pool was non-empty at this instant; timeout: it was empty
			return (out.got == 1) == (s != 0), s
		}
		return true, s
	},
	Equal: func(a, b interface{}) bool { return a.(uint64) == b.(uint64) },
}

func maskString(m uint64) string {
	var ids []string
	for i := 0; i < 64; i++ {
		if m&(1<<uint(i)) != 0 {
			ids = append(ids, fmt.Sprint(i))
		}
	}
	return "{" + strings.Join(ids, ",") + "}"
}

type strErr string

func (e strErr) Error() string { return string(e) }

func errOf(s string) error {
	if s == "" {
		return nil
	}
	return strErr(s)
}

// timeOfSeq returns the virtual time of the event with the given sequence number.
func timeOfSeq(h *History, seq int64) time.Duration {
	lo, hi := 0, len(h.Evs)
	for lo < hi {
		m := (lo + hi) / 2
		if h.Evs[m].Seq < seq {
			lo = m + 1
		} else {
			hi = m
		}
	}
	if lo < len(h.Evs) {
		return h.Evs[lo].T
	}
	return 0
}
